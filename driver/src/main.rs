//! pie-facts: a rustc_private driver that dumps the type-checked MIR of every body of the crate
//! being compiled (plus ADT / trait / impl tables) as one JSON file per compilation unit.
//!
//! Used as RUSTC_WORKSPACE_WRAPPER under `cargo +nightly check`; argv[1] is the real rustc path.
//! Output: $PIE_FACTS_DIR/<crate>-<stable crate id>.json (one write per process).
//! Nothing is executed: the facts are what the compiler's front end produced for this build.
#![feature(rustc_private)]
#![allow(clippy::all)]

extern crate rustc_abi;
extern crate rustc_driver;
extern crate rustc_hir;
extern crate rustc_interface;
extern crate rustc_middle;
extern crate rustc_span;

use std::fmt::Write as _;

use rustc_driver::Compilation;
use rustc_hir::def::DefKind;
use rustc_hir::def_id::{DefId, LOCAL_CRATE};
use rustc_interface::interface::Compiler;
use rustc_middle::mir::*;
use rustc_middle::ty::print::{with_crate_prefix, with_no_trimmed_paths};
use rustc_middle::ty::{self, Ty, TyCtxt};
use rustc_span::Span;

fn esc(s: &str) -> String {
  let mut o = String::with_capacity(s.len() + 2);
  o.push('"');
  for c in s.chars() {
    match c {
      '"' => o.push_str("\\\""),
      '\\' => o.push_str("\\\\"),
      '\n' => o.push_str("\\n"),
      '\r' => o.push_str("\\r"),
      '\t' => o.push_str("\\t"),
      c if (c as u32) < 0x20 => {
        let _ = write!(o, "\\u{:04x}", c as u32);
      }
      c => o.push(c),
    }
  }
  o.push('"');
  o
}

fn list(items: impl IntoIterator<Item = String>) -> String {
  let v: Vec<String> = items.into_iter().collect();
  format!("[{}]", v.join(","))
}

struct Cx<'tcx> {
  tcx: TyCtxt<'tcx>,
}

impl<'tcx> Cx<'tcx> {
  fn ty(&self, t: Ty<'tcx>) -> String {
    with_crate_prefix!(with_no_trimmed_paths!(t.to_string()))
  }
  fn path(&self, d: DefId) -> String {
    with_crate_prefix!(with_no_trimmed_paths!(self.tcx.def_path_str(d)))
  }
  fn id(&self, d: DefId) -> String {
    format!("{}{}", self.tcx.crate_name(d.krate), self.tcx.def_path(d).to_string_no_crate_verbose())
  }
  fn line(&self, sp: Span) -> (String, usize, bool) {
    let exp = sp.from_expansion();
    let sp = sp.source_callsite();
    let sm = self.tcx.sess.source_map();
    let loc = sm.lookup_char_pos(sp.lo());
    let file = match &loc.file.name {
      rustc_span::FileName::Real(r) => match r.local_path() {
        Some(p) => p.display().to_string(),
        None => format!("{:?}", loc.file.name),
      },
      other => format!("{:?}", other),
    };
    (file, loc.line, exp)
  }

  fn place(&self, body: &Body<'tcx>, p: Place<'tcx>) -> String {
    let mut projs = Vec::new();
    for (base, elem) in p.iter_projections() {
      let s = match elem {
        ProjectionElem::Deref => "\"*\"".to_string(),
        ProjectionElem::Field(f, _fty) => {
          let bt = base.ty(&body.local_decls, self.tcx);
          let (name, adt) = match bt.ty.kind() {
            ty::Adt(adt, _) => {
              let v = bt.variant_index.unwrap_or(rustc_abi::FIRST_VARIANT);
              let vd = adt.variant(v);
              let n = vd.fields.get(f).map(|fd| fd.name.to_string()).unwrap_or_else(|| f.index().to_string());
              (n, self.path(adt.did()))
            }
            ty::Closure(did, _) => {
              let n = match did.as_local() {
                Some(ld) => self
                  .tcx
                  .closure_captures(ld)
                  .get(f.index())
                  .map(|c| c.to_symbol().to_string())
                  .unwrap_or_else(|| f.index().to_string()),
                None => f.index().to_string(),
              };
              (n, format!("closure:{}", self.id(*did)))
            }
            ty::Tuple(_) => (f.index().to_string(), "tuple".to_string()),
            _ => (f.index().to_string(), self.ty(bt.ty)),
          };
          format!("{{\"f\":{},\"n\":{},\"a\":{}}}", f.index(), esc(&name), esc(&adt))
        }
        ProjectionElem::Downcast(sym, v) => {
          let n = sym.map(|s| s.to_string()).unwrap_or_else(|| v.index().to_string());
          format!("{{\"d\":{},\"i\":{}}}", esc(&n), v.index())
        }
        ProjectionElem::Index(l) => format!("{{\"ix\":{}}}", l.index()),
        ProjectionElem::ConstantIndex { .. } => "\"ci\"".to_string(),
        ProjectionElem::Subslice { .. } => "\"ss\"".to_string(),
        _ => "\"oc\"".to_string(),
      };
      projs.push(s);
    }
    format!("{{\"l\":{},\"p\":[{}]}}", p.local.index(), projs.join(","))
  }

  fn fn_ref(&self, owner: DefId, did: DefId, gargs: ty::GenericArgsRef<'tcx>) -> String {
    let tcx = self.tcx;
    let mut s = String::new();
    let _ = write!(s, "{{\"path\":{}", esc(&self.path(did)));
    let _ = write!(s, ",\"id\":{}", esc(&self.id(did)));
    let _ = write!(s, ",\"krate\":{}", esc(&tcx.crate_name(did.krate).to_string()));
    let _ = write!(s, ",\"local\":{}", did.is_local());
    let _ = write!(s, ",\"name\":{}", esc(&tcx.opt_item_name(did).map(|n| n.to_string()).unwrap_or_default()));
    let ga: Vec<String> = gargs.iter().map(|a| esc(&with_crate_prefix!(with_no_trimmed_paths!(a.to_string())))).collect();
    let _ = write!(s, ",\"gargs\":[{}]", ga.join(","));
    if matches!(tcx.def_kind(did), DefKind::AssocFn) {
      if let Some(tr) = tcx.trait_of_assoc(did) {
        let _ = write!(s, ",\"trait\":{}", esc(&self.path(tr)));
        if gargs.len() > 0 {
          if let Some(t) = gargs.get(0).and_then(|a| a.as_type()) {
            let _ = write!(s, ",\"self_ty\":{}", esc(&self.ty(t)));
          }
        }
      } else if let Some(im) = tcx.impl_of_assoc(did) {
        let st = tcx.type_of(im).instantiate_identity().skip_norm_wip();
        let _ = write!(s, ",\"impl_self\":{}", esc(&self.ty(st)));
        if let Some(tr) = tcx.impl_opt_trait_ref(im) {
          let tr = tr.instantiate_identity().skip_norm_wip();
          let _ = write!(s, ",\"impl_trait\":{}", esc(&self.path(tr.def_id)));
        }
      }
    }
    // A call through the Fn* traits on a closure value: name the closure body directly (for `Fn`/`FnMut` closures
    // called by `call_once` the resolved instance is a shim whose def id is the trait method itself).
    if gargs.len() > 0 {
      if let Some(t) = gargs.get(0).and_then(|a| a.as_type()) {
        let t = match t.kind() { ty::Ref(_, inner, _) => *inner, _ => t };
        if let ty::Closure(cdid, _) = t.kind() {
          let _ = write!(s, ",\"self_closure\":{}", esc(&self.id(*cdid)));
        }
      }
    }
    // Resolve trait method calls to the concrete impl where the types allow it.
    if owner.is_local() {
      let env = ty::TypingEnv::post_analysis(tcx, owner);
      if let Ok(Some(inst)) = ty::Instance::try_resolve(tcx, env, did, gargs) {
        let rd = inst.def_id();
        if rd != did {
          let _ = write!(s, ",\"resolved\":{}", esc(&self.path(rd)));
          let _ = write!(s, ",\"resolved_id\":{}", esc(&self.id(rd)));
          let _ = write!(s, ",\"resolved_local\":{}", rd.is_local());
        }
      }
    }
    s.push('}');
    s
  }

  fn constant(&self, owner: DefId, c: &ConstOperand<'tcx>) -> String {
    let t = c.const_.ty();
    match t.kind() {
      ty::FnDef(did, gargs) => format!("{{\"fn\":{}}}", self.fn_ref(owner, *did, gargs)),
      _ => {
        let env = ty::TypingEnv::post_analysis(self.tcx, owner);
        let mut s = format!("{{\"ty\":{}", esc(&self.ty(t)));
        if t.is_integral() || t.is_bool() || t.is_char() {
          if let Some(si) = c.const_.try_eval_scalar_int(self.tcx, env) {
            let _ = write!(s, ",\"int\":{}", esc(&format!("{}", si.to_bits_unchecked())));
          }
        }
        let _ = write!(s, ",\"v\":{}", esc(&with_crate_prefix!(with_no_trimmed_paths!(format!("{}", c.const_)))));
        s.push('}');
        s
      }
    }
  }

  fn operand(&self, owner: DefId, body: &Body<'tcx>, o: &Operand<'tcx>) -> String {
    match o {
      Operand::Copy(p) => format!("{{\"c\":{}}}", self.place(body, *p)),
      Operand::Move(p) => format!("{{\"m\":{}}}", self.place(body, *p)),
      Operand::Constant(c) => format!("{{\"k\":{}}}", self.constant(owner, c)),
      #[allow(unreachable_patterns)]
      other => format!("{{\"o\":{}}}", esc(&format!("{:?}", other))),
    }
  }

  fn rvalue(&self, owner: DefId, body: &Body<'tcx>, rv: &Rvalue<'tcx>) -> String {
    let op = |o: &Operand<'tcx>| self.operand(owner, body, o);
    match rv {
      Rvalue::Use(o, ..) => format!("{{\"k\":\"use\",\"op\":{}}}", op(o)),
      Rvalue::Ref(_, bk, p) => {
        let m = matches!(bk, BorrowKind::Mut { .. });
        format!("{{\"k\":\"ref\",\"mut\":{},\"pl\":{}}}", m, self.place(body, *p))
      }
      Rvalue::RawPtr(_, p) => format!("{{\"k\":\"rawptr\",\"pl\":{}}}", self.place(body, *p)),
      Rvalue::CopyForDeref(p) => format!("{{\"k\":\"use\",\"op\":{{\"c\":{}}}}}", self.place(body, *p)),
      Rvalue::Cast(kind, o, t) => format!(
        "{{\"k\":\"cast\",\"ck\":{},\"op\":{},\"ty\":{}}}",
        esc(&format!("{:?}", kind)),
        op(o),
        esc(&self.ty(*t))
      ),
      Rvalue::BinaryOp(b, ab) => {
        format!("{{\"k\":\"bin\",\"bop\":{},\"a\":{},\"b\":{}}}", esc(&format!("{:?}", b)), op(&ab.0), op(&ab.1))
      }
      Rvalue::UnaryOp(u, a) => format!("{{\"k\":\"un\",\"uop\":{},\"a\":{}}}", esc(&format!("{:?}", u)), op(a)),
      Rvalue::Discriminant(p) => {
        let pt = p.ty(&body.local_decls, self.tcx).ty;
        format!("{{\"k\":\"discr\",\"pl\":{},\"ty\":{}}}", self.place(body, *p), esc(&self.ty(pt)))
      }
      Rvalue::Aggregate(kind, ops) => {
        let k = match &**kind {
          AggregateKind::Adt(did, v, _, _, _) => {
            let adt = self.tcx.adt_def(*did);
            let vn = adt.variant(*v).name.to_string();
            format!("{{\"adt\":{},\"variant\":{},\"vi\":{}}}", esc(&self.path(*did)), esc(&vn), v.index())
          }
          AggregateKind::Closure(did, _) => format!("{{\"closure\":{}}}", esc(&self.id(*did))),
          AggregateKind::Tuple => "{\"tuple\":true}".to_string(),
          AggregateKind::Array(_) => "{\"array\":true}".to_string(),
          other => format!("{{\"other\":{}}}", esc(&format!("{:?}", other))),
        };
        format!("{{\"k\":\"aggr\",\"ak\":{},\"ops\":{}}}", k, list(ops.iter().map(|o| op(o))))
      }
      Rvalue::Repeat(o, _) => format!("{{\"k\":\"repeat\",\"op\":{}}}", op(o)),
      other => format!("{{\"k\":\"other\",\"v\":{}}}", esc(&format!("{:?}", other))),
    }
  }

  fn body(&self, def: DefId, body: &Body<'tcx>) -> String {
    let tcx = self.tcx;
    let mut s = String::new();
    let kind = tcx.def_kind(def);
    let (file, line, _) = self.line(tcx.def_span(def));
    let (_, hi, _) = {
      let sp = body.span;
      let sm = tcx.sess.source_map();
      let loc = sm.lookup_char_pos(sp.source_callsite().hi());
      (0, loc.line, false)
    };
    let _ = write!(s, "{{\"id\":{},\"path\":{},\"kind\":{}", esc(&self.id(def)), esc(&self.path(def)), esc(&format!("{:?}", kind)));
    let _ = write!(s, ",\"name\":{}", esc(&tcx.opt_item_name(def).map(|n| n.to_string()).unwrap_or_default()));
    let _ = write!(s, ",\"file\":{},\"line\":{},\"line_hi\":{}", esc(&file), line, hi);
    let _ = write!(s, ",\"from_expansion\":{}", tcx.def_span(def).from_expansion());
    let root = tcx.typeck_root_def_id(def);
    if root != def {
      let _ = write!(s, ",\"root\":{}", esc(&self.id(root)));
      let _ = write!(s, ",\"parent\":{}", esc(&self.id(tcx.parent(def))));
    }
    // impl / trait container of the root item
    if matches!(tcx.def_kind(root), DefKind::AssocFn) {
      if let Some(im) = tcx.impl_of_assoc(root) {
        let st = tcx.type_of(im).instantiate_identity().skip_norm_wip();
        let _ = write!(s, ",\"impl_id\":{},\"impl_self\":{}", esc(&self.id(im)), esc(&self.ty(st)));
        if let Some(tr) = tcx.impl_opt_trait_ref(im) {
          let tr = tr.instantiate_identity().skip_norm_wip();
          let _ = write!(s, ",\"impl_trait\":{}", esc(&self.path(tr.def_id)));
          let _ = write!(s, ",\"impl_trait_ref\":{}", esc(&with_crate_prefix!(with_no_trimmed_paths!(tr.to_string()))));
        }
      } else if let Some(tr) = tcx.trait_of_assoc(root) {
        let _ = write!(s, ",\"in_trait\":{}", esc(&self.path(tr)));
      }
    }
    let gens = tcx.generics_of(root);
    let mut gnames = Vec::new();
    for i in 0..gens.count() {
      gnames.push(esc(&gens.param_at(i, tcx).name.to_string()));
    }
    let _ = write!(s, ",\"generics\":[{}]", gnames.join(","));
    let _ = write!(s, ",\"argc\":{}", body.arg_count);
    // declared visibility of fns / methods: "pub" | "crate" | "private" (restricted to a module below the crate root)
    if matches!(kind, DefKind::Fn | DefKind::AssocFn) {
      let v = match tcx.visibility(def) {
        rustc_middle::ty::Visibility::Public => "pub",
        rustc_middle::ty::Visibility::Restricted(m) => if m.is_crate_root() { "crate" } else { "private" },
      };
      let _ = write!(s, ",\"vis\":\"{}\"", v);
    }
    // locals
    let mut names: Vec<Option<String>> = vec![None; body.local_decls.len()];
    for vdi in &body.var_debug_info {
      if let VarDebugInfoContents::Place(p) = &vdi.value {
        if p.projection.is_empty() && names[p.local.index()].is_none() {
          names[p.local.index()] = Some(vdi.name.to_string());
        }
      }
    }
    let locals = body.local_decls.iter_enumerated().map(|(l, d)| {
      let mut t = format!("{{\"ty\":{}", esc(&self.ty(d.ty)));
      if let Some(n) = &names[l.index()] {
        let _ = write!(t, ",\"n\":{}", esc(n));
      }
      t.push('}');
      t
    });
    let _ = write!(s, ",\"locals\":{}", list(locals));
    // blocks
    let mut blocks = Vec::new();
    for (_bb, data) in body.basic_blocks.iter_enumerated() {
      let mut b = String::new();
      let _ = write!(b, "{{\"cleanup\":{}", data.is_cleanup);
      let mut stmts = Vec::new();
      for st in &data.statements {
        let (_, ln, exp) = self.line(st.source_info.span);
        match &st.kind {
          StatementKind::Assign(bx) => {
            let (pl, rv) = &**bx;
            stmts.push(format!(
              "{{\"k\":\"a\",\"p\":{},\"rv\":{},\"ln\":{},\"x\":{}}}",
              self.place(body, *pl),
              self.rvalue(def, body, rv),
              ln,
              exp
            ));
          }
          StatementKind::SetDiscriminant { place, variant_index } => {
            stmts.push(format!("{{\"k\":\"sd\",\"p\":{},\"vi\":{},\"ln\":{}}}", self.place(body, **place), variant_index.index(), ln));
          }
          _ => {}
        }
      }
      let _ = write!(b, ",\"stmts\":[{}]", stmts.join(","));
      let term = data.terminator();
      let (_, tln, texp) = self.line(term.source_info.span);
      let t = match &term.kind {
        TerminatorKind::Goto { target } => format!("{{\"k\":\"goto\",\"t\":{}}}", target.index()),
        TerminatorKind::SwitchInt { discr, targets } => {
          let arms: Vec<String> = targets.iter().map(|(v, t)| format!("[{},{}]", esc(&v.to_string()), t.index())).collect();
          format!(
            "{{\"k\":\"switch\",\"op\":{},\"arms\":[{}],\"otherwise\":{}}}",
            self.operand(def, body, discr),
            arms.join(","),
            targets.otherwise().index()
          )
        }
        TerminatorKind::Return => "{\"k\":\"return\"}".to_string(),
        TerminatorKind::Unreachable => "{\"k\":\"unreachable\"}".to_string(),
        TerminatorKind::UnwindResume => "{\"k\":\"resume\"}".to_string(),
        TerminatorKind::UnwindTerminate(_) => "{\"k\":\"terminate\"}".to_string(),
        TerminatorKind::Drop { place, target, unwind, .. } => {
          let uw = match unwind {
            UnwindAction::Cleanup(b) => b.index() as i64,
            _ => -1,
          };
          let pt = place.ty(&body.local_decls, tcx).ty;
          format!(
            "{{\"k\":\"drop\",\"pl\":{},\"ty\":{},\"t\":{},\"uw\":{}}}",
            self.place(body, *place),
            esc(&self.ty(pt)),
            target.index(),
            uw
          )
        }
        TerminatorKind::Call { func, args, destination, target, unwind, fn_span, .. } => {
          let uw = match unwind {
            UnwindAction::Cleanup(b) => b.index() as i64,
            UnwindAction::Continue => -2,
            UnwindAction::Unreachable => -3,
            UnwindAction::Terminate(_) => -4,
          };
          let (_, fl, fexp) = self.line(*fn_span);
          let f = match func {
            Operand::Constant(c) => self.constant(def, c),
            o => format!("{{\"indirect\":{}}}", self.operand(def, body, o)),
          };
          let a = list(args.iter().map(|a| self.operand(def, body, &a.node)));
          let dty = destination.ty(&body.local_decls, tcx).ty;
          format!(
            "{{\"k\":\"call\",\"f\":{},\"args\":{},\"dest\":{},\"dest_ty\":{},\"t\":{},\"uw\":{},\"fl\":{},\"fx\":{}}}",
            f,
            a,
            self.place(body, *destination),
            esc(&self.ty(dty)),
            target.map(|t| t.index() as i64).unwrap_or(-1),
            uw,
            fl,
            fexp
          )
        }
        TerminatorKind::Assert { cond, expected, target, msg, .. } => format!(
          "{{\"k\":\"assert\",\"cond\":{},\"expected\":{},\"t\":{},\"msg\":{}}}",
          self.operand(def, body, cond),
          expected,
          target.index(),
          esc(&format!("{:?}", msg).chars().take(60).collect::<String>())
        ),
        other => format!("{{\"k\":\"other\",\"v\":{}}}", esc(&format!("{:?}", other).chars().take(80).collect::<String>())),
      };
      let _ = write!(b, ",\"term\":{},\"tln\":{},\"tx\":{}}}", t, tln, texp);
      blocks.push(b);
    }
    let _ = write!(s, ",\"blocks\":[{}]}}", blocks.join(","));
    s
  }
}

struct Cb;

impl rustc_driver::Callbacks for Cb {
  fn after_analysis<'tcx>(&mut self, _c: &Compiler, tcx: TyCtxt<'tcx>) -> Compilation {
    let Ok(dir) = std::env::var("PIE_FACTS_DIR") else {
      return Compilation::Continue;
    };
    let cx = Cx { tcx };
    let krate = tcx.crate_name(LOCAL_CRATE).to_string();
    // When used as RUSTC_WRAPPER (dependencies included), PIE_FACTS_ONLY selects the crates to dump.
    if let Ok(only) = std::env::var("PIE_FACTS_ONLY") {
      if !only.split(',').any(|c| c == krate) {
        return Compilation::Continue;
      }
    }
    let mut out = String::new();
    let _ = write!(out, "{{\"crate\":{}", esc(&krate));
    let _ = write!(out, ",\"crate_id\":{}", esc(&format!("{:x}", tcx.stable_crate_id(LOCAL_CRATE).as_u64())));
    let args: Vec<String> = std::env::args().collect();
    let is_test = args.iter().any(|a| a == "--test");
    let mut feats = Vec::new();
    let mut cfgs = Vec::new();
    let mut i = 0;
    while i < args.len() {
      if args[i] == "--cfg" && i + 1 < args.len() {
        let c = &args[i + 1];
        if let Some(f) = c.strip_prefix("feature=") {
          feats.push(esc(f.trim_matches('"')));
        } else {
          cfgs.push(esc(c));
        }
        i += 1;
      }
      i += 1;
    }
    let _ = write!(out, ",\"is_test\":{},\"features\":[{}],\"cfgs\":[{}]", is_test, feats.join(","), cfgs.join(","));
    let src = args.iter().find(|a| a.ends_with(".rs")).cloned().unwrap_or_default();
    let _ = write!(out, ",\"src\":{}", esc(&src));

    // ADTs, traits, impls
    let mut adts = Vec::new();
    let mut traits = Vec::new();
    let mut impls = Vec::new();
    for ld in tcx.hir_crate_items(()).definitions() {
      let did = ld.to_def_id();
      match tcx.def_kind(did) {
        DefKind::Struct | DefKind::Enum | DefKind::Union => {
          let adt = tcx.adt_def(did);
          let kind = if adt.is_enum() { "enum" } else if adt.is_struct() { "struct" } else { "union" };
          let vars = adt.variants().iter_enumerated().map(|(vi, v)| {
            let fields = v.fields.iter().map(|f| {
              let ft = tcx.type_of(f.did).instantiate_identity().skip_norm_wip();
              format!("{{\"name\":{},\"ty\":{}}}", esc(&f.name.to_string()), esc(&cx.ty(ft)))
            });
            format!("{{\"name\":{},\"idx\":{},\"fields\":{}}}", esc(&v.name.to_string()), vi.index(), list(fields))
          });
          let (file, line, _) = cx.line(tcx.def_span(did));
          adts.push(format!(
            "{{\"path\":{},\"kind\":\"{}\",\"file\":{},\"line\":{},\"variants\":{}}}",
            esc(&cx.path(did)),
            kind,
            esc(&file),
            line,
            list(vars)
          ));
        }
        DefKind::Trait => {
          let ms = tcx.associated_items(did).in_definition_order().filter(|a| a.is_fn()).map(|a| {
            format!("{{\"name\":{},\"has_default\":{}}}", esc(&a.name().to_string()), a.defaultness(tcx).has_value())
          });
          traits.push(format!("{{\"path\":{},\"methods\":{}}}", esc(&cx.path(did)), list(ms)));
        }
        DefKind::Impl { .. } => {
          let st = tcx.type_of(did).instantiate_identity().skip_norm_wip();
          let mut s = format!("{{\"id\":{},\"self_ty\":{}", esc(&cx.id(did)), esc(&cx.ty(st)));
          if let Some(tr) = tcx.impl_opt_trait_ref(did) {
            let tr = tr.instantiate_identity().skip_norm_wip();
            let _ = write!(s, ",\"trait\":{},\"trait_ref\":{}", esc(&cx.path(tr.def_id)), esc(&with_crate_prefix!(with_no_trimmed_paths!(tr.to_string()))));
          }
          let ms = tcx.associated_items(did).in_definition_order().filter(|a| a.is_fn()).map(|a| esc(&a.name().to_string()));
          let (file, line, exp) = cx.line(tcx.def_span(did));
          let _ = write!(s, ",\"methods\":{},\"file\":{},\"line\":{},\"from_expansion\":{}}}", list(ms), esc(&file), line, exp);
          impls.push(s);
        }
        _ => {}
      }
    }
    let _ = write!(out, ",\"adts\":[{}],\"traits\":[{}],\"impls\":[{}]", adts.join(","), traits.join(","), impls.join(","));

    // bodies
    let mut bodies = Vec::new();
    for ld in tcx.hir_body_owners() {
      let did = ld.to_def_id();
      match tcx.def_kind(did) {
        DefKind::Fn | DefKind::AssocFn | DefKind::Closure => {}
        _ => continue,
      }
      if tcx.is_constructor(did) {
        continue;
      }
      let body = tcx.optimized_mir(did);
      bodies.push(cx.body(did, body));
    }
    let _ = write!(out, ",\"bodies\":[{}]}}", bodies.join(","));
    let fname = format!("{}/{}-{:x}{}.json", dir, krate, tcx.stable_crate_id(LOCAL_CRATE).as_u64(), if is_test { "-test" } else { "" });
    std::fs::write(&fname, out).expect("pie-facts: cannot write fact file");
    Compilation::Continue
  }
}

fn main() {
  let mut args: Vec<String> = std::env::args().collect();
  // As RUSTC_WORKSPACE_WRAPPER / RUSTC_WRAPPER, argv[1] is the path of the real rustc.
  if args.len() > 1 && (args[1].ends_with("rustc") || args[1].contains("/rustc")) {
    args.remove(1);
  }
  rustc_driver::run_compiler(&args, &mut Cb);
}
