"""Full regression of the checker: every catalogue mutant and every seeded change must be reported (or stay silent if
equivalent); every behaviour-preserving probe under probes/equivalent must stay silent. Scratch copies only.
usage: regress.py [mutants] [seeded] [probes]   (default: all)   env JOBS"""
import glob, json, os, sys
sys.path.insert(0, '/verif/analysis'); sys.path.insert(0, '/verif/mutants')
import selftest, catalogue, subprocess, tempfile, shutil
what = {a for a in sys.argv[1:] if not a.startswith('--')} or {'mutants', 'seeded', 'probes'}
ms = []
if 'mutants' in what:
    ms += list(catalogue.M)
if 'seeded' in what:
    for d in sorted(glob.glob('/verif/seeded/*/meta.json')):
        meta = json.load(open(d))
        ms.append(dict(id='seeded-' + meta['id'], patch=os.path.join(os.path.dirname(d), 'patch.diff'), expect=list(meta.get('detected_by_rules') or ['?']), props=[meta['property']]))
if 'probes' in what:
    for p in sorted(glob.glob('/verif/probes/equivalent/*.diff')):
        ms.append(dict(id='probe-' + os.path.basename(p)[:-5], patch=p, expect=[], props=[]))
clean = tempfile.mkdtemp(prefix='pie-clean-')
subprocess.check_call('git -C /repo archive HEAD | tar -x -C %s' % clean, shell=True)
try:
    res = selftest.run(ms, repo=clean, jobs=int(os.environ.get('JOBS', '8')))
finally:
    shutil.rmtree(clean, ignore_errors=True)
bad = 0
for mu in ms:
    r = res[mu['id']]
    v = selftest.verdict(mu, r)
    if mu['id'].startswith('seeded-') and v in ('killed', 'killed-other'):
        # a seeded change must be reported by a rule tagged with its own property
        if not any(mu['props'][0] in f['props'] for f in r['failing']):
            v = 'SURVIVED(own property silent)'
    own = sorted({f['rule'] for f in r['failing'] if mu['props'] and mu['props'][0] in f['props']}) if mu['id'].startswith('seeded-') else []
    if mu['id'].startswith('seeded-') and mu['expect'] == ['?'] and own:
        v = 'killed'
        if '--write-meta' in sys.argv:
            mp = os.path.join('/verif/seeded', mu['id'][7:], 'meta.json')
            meta = json.load(open(mp))
            meta['detected_by_rules'] = own
            json.dump(meta, open(mp, 'w'), indent=1)
    if v not in ('killed', 'ok-silent'):
        bad += 1
    print('%-14s %-40s expect=%s got=%s%s' % (v, mu['id'], mu['expect'], sorted({f['rule'] for f in r['failing']}), (' own=%s' % own) if own else ''))
print('TOTAL %d, not as expected %d' % (len(ms), bad))
