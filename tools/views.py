"""Debug aid: apply a patch to a clean export of /repo's HEAD, extract, and print the failing obligations per view.
usage: views.py <patch.diff> [--keep]  (prints the facts dir so that follow-up scripts can load it)"""
import os, subprocess, sys, tempfile, shutil
sys.path.insert(0, '/verif/analysis')
import extract, engine, flatten, mutate
patch = os.path.abspath(sys.argv[1])
scratch = tempfile.mkdtemp(prefix='pie-view-')
root = os.path.join(scratch, 'repo'); os.mkdir(root)
subprocess.check_call('git -C /repo archive HEAD | tar -x -C %s' % root, shell=True)
subprocess.check_call(['patch', '-p1', '-s', '-i', patch], cwd=root)
fd, log = mutate.analyse_copy(root, os.path.join(scratch, 'target'))
if fd is None:
    print(log[-2000:]); sys.exit(1)
keep = '/tmp/viewfacts'
shutil.rmtree(keep, ignore_errors=True); shutil.copytree(fd, keep)
shutil.rmtree(scratch, ignore_errors=True)
F0, roles0, R0 = engine.run_all(keep)
print('== raw'); [print('  ', o['rule'], o['key'][:90], sorted(o['props']), '|', o['msg'].split('\n')[0][:160]) for o in R0.obs if not o['ok']]
c = flatten.helper_candidates(F0)
print('helpers:', sorted(b.path for b in c.values()))
if c:
    F1, rep = flatten.flatten(F0, set(c))
    _, _, R1 = engine._run_on(F1)
    print('== helpers-inlined', rep); [print('  ', o['rule'], o['key'][:90], sorted(o['props']), '|', o['msg'].split('\n')[0][:160]) for o in R1.obs if not o['ok']]
print('facts kept in', keep)
