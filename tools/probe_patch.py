"""Analyse a patched scratch copy of /repo (never touches /repo): apply each given unified diff to its own copy,
compile it through the driver, run all rule groups and print the failing obligations (rule, key, properties).
usage: probe_patch.py [-j N] <patch.diff>...      exit 0 always; prints SILENT / FIRED per patch."""
import json, os, sys
sys.path.insert(0, '/verif/analysis')
sys.path.insert(0, '/verif/mutants')
import selftest
args = sys.argv[1:]
jobs = 4
if args and args[0] == '-j':
    jobs = int(args[1]); args = args[2:]
ms = [dict(id=os.path.abspath(p), patch=os.path.abspath(p), expect=[], props=[]) for p in args]
import subprocess, tempfile, shutil
clean = tempfile.mkdtemp(prefix='pie-clean-')  # a clean export of /repo's HEAD, so that a patch applied to /repo meanwhile does not leak in
subprocess.check_call('git -C /repo archive HEAD | tar -x -C %s' % clean, shell=True)
try:
    res = selftest.run(ms, repo=clean, jobs=jobs)
finally:
    shutil.rmtree(clean, ignore_errors=True)
for m in ms:
    r = res[m['id']]
    if r['status'] != 'applied':
        print('%s: %s %s' % (m['id'], r['status'].upper(), r.get('note', '')[-600:]))
        continue
    if not r['failing']:
        print('%s: SILENT' % m['id'])
        continue
    print('%s: FIRED' % m['id'])
    seen = {}
    for f in r['failing']:
        seen.setdefault((f['rule'], f['key']), [set(), f['msg']])[0].update(f['props'])
    for (rule, key), (props, msg) in seen.items():
        print('    [%s] %s  props=%s  %s' % (rule, key, ','.join(sorted(props)), msg.split('\n')[0][:200]))
