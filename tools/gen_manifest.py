"""Generate /verif/MANIFEST.json from analysis/props.py (single source of truth)."""
import json, os, sys
ROOT = os.path.join(os.path.dirname(os.path.abspath(__file__)), '..')
sys.path.insert(0, os.path.join(ROOT, 'analysis'))
from props import PROPS

TECH = {
    'C01': 'MIR path rules: must-before/must-after with callee summaries, guard-pruned reachability (reuse only behind validation; reset->execute->store)',
    'C02': 'MIR path rules on memo/early-exit + first-insertion-order rule for the adjacency (re-linking insert only behind an absence guard)',
    'C03': 'MIR scheduling-coverage and exit-guard rules (store-query variant evaluation, verdict-edge reachability)',
    'C04': 'MIR rules on the queue: sort-before-select, comparator orientation x selection side, set/vector pairing, verdict polarity',
    'C05': 'guard rules with argument provenance (ORIG) and dominance: hidden-dependency guards and validate-before-modify',
    'C06': 'guard rules with dominance: overlap guard, reset-before-execute, writer query variant evaluation',
    'C07': 'protocol rules (reserve-before-recurse), error-mapping evaluation under Err(CycleDetected), comparison decision table of the forward search',
    'C08': 'provenance rules (ORIG) on every dependency constructor + who-may-add/remove call-graph rules',
    'C09': 'provenance rules: stamp taken from the same reader/writer/output; verdict-origin dataflow',
    'C10': 'finite typestate over the three edge encodings, who-may-write ranks, permutation rule, comparison decision tables for the rank-window searches',
    'C11': 'typestate/sync rules on all mutators, sibling-agreement tables for getters, check-then-mark and scratch-clear path rules, first-insertion-order rule',
    'C12': 'finite-domain abstract evaluation of the MIR of stamp/check over all (tag,tag,payload-equal?) cases vs the documented relation table',
    'C13': 'path rules on file checkers: rewind-after-use on every exit, open-option constants, observer sibling agreement, digest framing in loops',
    'C14': 'generic-argument forwarding tables (resolved callees), TypeId keying, guard rule on replacement',
    'C15': 'resolved-receiver lint (no Box<dyn _> as Any/eq/hash receiver or coercion source), delegation tables, lookup/insert key provenance',
    'C16': 'order-taint analysis from seeded hash containers with checked sort sanitizer; nondeterminism-source scan; sort-key provenance',
    'C17': 'start/end pairing path rules (closure invocation on every success exit), exhaustiveness vs trait method list, per-variant evaluation of Event helpers',
    'C18': 'error-arm path rules (record, no abort, leads only to inconsistent outcome), Result-discipline scan over resolved call sites',
    'C20': 'who-consults-which-edges rule on the abort-capable validation queries (session-membership guard on the edge owner), abort-only-under-diagnosis reachability, shared exactness rules',
    'C19': 'static crash-point enumeration: may-unwind calls inside open two-phase protocols, residue table, tolerant-reader rules',
}
NOTE = 'Trusted: rustc nightly MIR for the real build flags, the fact extractor, the rule tables; std/hashlink/slotmap semantics. Decides the named structural necessary conditions for all paths of the library code, not the behaviour as a whole unless stated. See DESIGN.md section 3 for what is not decided.'

checks = []
for p in sorted(PROPS):
    m = PROPS[p]
    checks.append({
        'property_id': p,
        'quick_cmd': './check %s' % p,
        'thorough_cmd': './check %s --tier thorough' % p,
        'evidence_file': '/verif/evidence/%s.json' % p,
        'replay_cmd_template': './check %s --explain {path}' % p,
        'engine': 'pie-facts + analysis',
        'level_claimed': {'category': 'other',
                          'text': 'Static analysis of the type-checked MIR of the current tree: ' + m['explanation'] + ' Not decided: ' + ('; '.join(m['not_decided']) or 'nothing further') + '.',
                          'design_ref': 'DESIGN.md section 3, ' + p},
        'level_note': NOTE + ' Assumes: ' + '; '.join(m['assumptions'][3:] or ['nothing beyond the trusted base']),
        'technique': TECH[p],
    })
manifest = {
    'version': 1,
    'setup_cmd': 'cd /verif/driver && CARGO_NET_OFFLINE=true cargo +nightly build --release --offline',
    'hooks': {'guard': 'gohla_pie_verif', 'enable': 'none needed: the analysis reads the MIR the compiler produces for /repo as it is; nothing is compiled into pie',
              'baseline_off_cmd': 'cd /repo && cargo test --workspace --no-fail-fast --offline', 'source_commits': [], 'add_only': True},
    'engines': [
        {'name': 'pie-facts', 'path': '/verif/driver', 'serves_properties': sorted(PROPS), 'kind_free_text': 'rustc_private driver (RUSTC_WORKSPACE_WRAPPER under cargo +nightly check): dumps MIR, ADTs, traits, impls as JSON'},
        {'name': 'analysis', 'path': '/verif/analysis', 'serves_properties': sorted(PROPS), 'kind_free_text': 'Python rule engine over the MIR facts: CFG reachability with avoidance, provenance, guards, summaries, typestate, abstract evaluation'},
    ],
    'checks': checks,
    'not_applicable': [],
    'notes': 'Fix commits in /repo (unguarded, message starts with "fix:"): 9e925d7 c95d90f 6a07015 47c37db; see known_findings.txt. Thorough tier = feature matrix x all targets, mutant self-test, clippy cross-reference.',
}
json.dump(manifest, open(os.path.join(ROOT, 'MANIFEST.json'), 'w'), indent=1)
print('checks:', len(checks))
