"""Run the checks against every seeded change under /verif/seeded/: apply to /repo, run the property's
quick check (and list every other property whose check fires), restore /repo. Writes seeded/RESULTS.md."""
import json, os, subprocess, sys, glob
os.chdir('/verif')
ALL = ['C%02d' % i for i in range(1, 21)]
def sh(cmd, cwd='/verif'):
    r = subprocess.run(cmd, shell=True, cwd=cwd, stdout=subprocess.PIPE, stderr=subprocess.STDOUT, text=True)
    return r.returncode, r.stdout
assert sh('git status --porcelain', '/repo')[1].strip() == '', '/repo not clean'
rows = []
only = [a for a in sys.argv[1:] if not a.startswith('--')]
for d in sorted(glob.glob('seeded/*/')):
    sid = os.path.basename(d.rstrip('/'))
    if only and sid not in only:
        continue
    meta = json.load(open(d + 'meta.json'))
    prop = meta['property']
    try:
        rc, out = sh('git apply /verif/%spatch.diff' % d, '/repo')
        assert rc == 0, out
        fired = {}
        for p in ([prop] + ([q for q in ALL if q != prop] if '--all' in sys.argv else [])):
            rc, out = sh('./check %s' % p)
            if rc != 0:
                fired[p] = sorted({l.split()[1] for l in out.splitlines() if l.startswith('  [') and len(l.split()) > 1})
    finally:
        sh('git checkout -- .', '/repo')
    rows.append((sid, prop, prop in fired, fired))
    print(sid, prop, 'DETECTED' if prop in fired else 'MISSED', fired.get(prop, []))
# with ids given, only those rows are replaced; the other rows of an existing RESULTS.md are kept
lines = {}
if only and os.path.exists('seeded/RESULTS.md'):
    for l in open('seeded/RESULTS.md'):
        if l.startswith('| C'):
            lines[l.split('|')[1].strip()] = l
for sid, prop, det, fired in rows:
    meta = json.load(open('seeded/%s/meta.json' % sid))
    lines[sid] = '| %s | %s | %s | %s | %s |\n' % (sid, prop, 'yes' if det else '**NO**', ', '.join(fired.get(prop, [])), 'yes' if meta.get('initially_missed') else '')
def _key(sid):
    a, b = sid.split('_')
    return (a, int(b))
with open('seeded/RESULTS.md', 'w') as fh:
    fh.write('# Seeded changes vs. checks (quick tier)\n\n| id | property | detected | reporting rules | initially missed |\n|---|---|---|---|---|\n')
    for sid in sorted(lines, key=_key):
        fh.write(lines[sid])
print('%d/%d detected' % (sum(1 for r in rows if r[2]), len(rows)))
