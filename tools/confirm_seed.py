"""Confirm a seeded change in a scratch worktree and file it under /verif/seeded/<id>/.
usage: confirm_seed.py <id> <property> <patch> <demo.rs> <crate: pie|graph> <needs-text> [--initially-missed] [--caught-by r1,r2]
Checks: (1) with the change the existing suite passes, (2) with the change the demo fails, (3) without it the demo passes."""
import json, os, subprocess, sys, shutil, re
WT = '/tmp/seedconfirm'
def sh(cmd, cwd=WT, timeout=3000):
    r = subprocess.run(cmd, shell=True, cwd=cwd, stdout=subprocess.PIPE, stderr=subprocess.STDOUT, text=True, timeout=timeout, env=dict(os.environ, CARGO_NET_OFFLINE='true'))
    return r.returncode, r.stdout
def summarize(out):
    return [l for l in out.splitlines() if l.startswith('test result') or 'FAILED' in l or l.startswith('error')][:20]
def main():
    a = sys.argv[1:]
    sid, prop, patch, demo, crate, needs = a[:6]
    missed = '--initially-missed' in a
    caught = a[a.index('--caught-by') + 1].split(',') if '--caught-by' in a else []
    if not os.path.isdir(WT):
        subprocess.check_call(['git', '-C', '/repo', 'worktree', 'add', '-q', WT, 'HEAD'])
    sh('git checkout -q -- . && git clean -fdq -- pie graph dev_ext dev_util')
    tdir = {'pie': 'pie/tests', 'graph': 'graph/tests'}[crate]
    pkg = {'pie': 'pie', 'graph': 'pie_graph'}[crate]
    os.makedirs(os.path.join(WT, tdir), exist_ok=True)
    name = 'seed_demo_' + re.sub(r'\W', '_', sid)
    feats = '--features file_hash_checker' if crate == 'pie' else ''
    res = {}
    # without the change: demo passes
    shutil.copy(demo, os.path.join(WT, tdir, name + '.rs'))
    rc, out = sh('cargo test -p %s %s --offline --test %s 2>&1' % (pkg, feats, name))
    res['demo_without_change'] = {'rc': rc, 'summary': summarize(out)}
    # with the change
    rc0, o0 = sh('git apply %s' % patch)
    assert rc0 == 0, o0
    rc, out = sh('cargo test -p %s %s --offline --test %s 2>&1' % (pkg, feats, name))
    res['demo_with_change'] = {'rc': rc, 'summary': summarize(out)}
    os.remove(os.path.join(WT, tdir, name + '.rs'))
    rc, out = sh('cargo test --workspace --no-fail-fast --offline 2>&1')
    res['suite_with_change'] = {'rc': rc, 'summary': summarize(out)}
    rc2, out2 = sh('cargo test --workspace --all-features --no-fail-fast --offline 2>&1')
    res['suite_all_features_with_change'] = {'rc': rc2, 'summary': summarize(out2)}
    sh('git checkout -q -- . && git clean -fdq -- pie graph dev_ext dev_util')
    ok = res['demo_without_change']['rc'] == 0 and res['demo_with_change']['rc'] != 0 and res['suite_with_change']['rc'] == 0 and res['suite_all_features_with_change']['rc'] == 0
    print(sid, 'CONFIRMED' if ok else 'NOT CONFIRMED', json.dumps({k: v['rc'] for k, v in res.items()}))
    if ok:
        d = os.path.join('/verif/seeded', sid)
        os.makedirs(d, exist_ok=True)
        shutil.copy(patch, os.path.join(d, 'patch.diff'))
        shutil.copy(demo, os.path.join(d, 'demo.rs'))
        json.dump({'id': sid, 'property': prop, 'needs_to_manifest': needs, 'source': 'independent sub-agent given only the property text and a scratch worktree',
                   'demo': {'file': 'demo.rs', 'install_as': '%s/%s.rs' % (tdir, name), 'run': 'cargo test -p %s %s --offline --test %s' % (pkg, feats, name)},
                   'confirmed': res, 'detected_by_rules': caught, 'initially_missed': missed,
                   'check_cmd': 'git -C /repo apply /verif/seeded/%s/patch.diff && (cd /verif && ./check %s); git -C /repo checkout -- .' % (sid, prop)}, open(os.path.join(d, 'meta.json'), 'w'), indent=1)
    return 0 if ok else 1
sys.exit(main())
