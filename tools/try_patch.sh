#!/bin/bash
# usage: tools/try_patch.sh <patch.diff> [Cxx ...]   — apply a patch to /repo, run the quick checks, always restore /repo
set -u
P=$(realpath "$1"); shift
PROPS="${*:-C01 C02 C03 C04 C05 C06 C07 C08 C09 C10 C11 C12 C13 C14 C15 C16 C17 C18 C19}"
cd /repo || exit 2
if [ -n "$(git status --porcelain)" ]; then echo "/repo not clean"; exit 2; fi
restore() { git -C /repo checkout -- . ; git -C /repo clean -fdq -- pie graph dev_ext dev_util >/dev/null 2>&1; }
trap restore EXIT
git apply "$P" || { echo "patch does not apply"; exit 2; }
cd /verif
for p in $PROPS; do
  out=$(./check $p 2>&1); rc=$?
  if [ $rc -ne 0 ]; then echo "== $p exit=$rc"; echo "$out" | grep -E "^\s+\[|VIOLATION|cannot analyse|error" | head -12; else echo "== $p ok"; fi
done
