"""Fill the generated tables of DESIGN.md (sections 9 and 10) from expected_rules.json, the rule messages of a
run on the current tree, and seeded/*/meta.json."""
import json, os, sys, glob, re
ROOT = os.path.join(os.path.dirname(os.path.abspath(__file__)), '..')
sys.path.insert(0, os.path.join(ROOT, 'analysis'))
import extract, engine
fd = extract.facts_dir('/repo', 'all')
F, roles, R = engine.run_all(fd)
byprop = {}
for o in R.obs:
    for p in o['props']:
        d = byprop.setdefault(p, {})
        e = d.setdefault(o['rule'], {'n': 0, 'msg': o['msg'].split('\n')[0]})
        e['n'] += 1
lines = []
for p in sorted(byprop):
    lines.append('**%s** — %d rule ids, %d obligations on the current tree' % (p, len(byprop[p]), sum(e['n'] for e in byprop[p].values())))
    lines.append('')
    for r, e in sorted(byprop[p].items()):
        lines.append('- `%s` (%d): %s' % (r, e['n'], e['msg'][:230]))
    lines.append('')
s = open(os.path.join(ROOT, 'DESIGN.md')).read()
s = re.sub(r'<!-- BEGIN:RULES -->.*?<!-- END:RULES -->', lambda m: '<!-- BEGIN:RULES -->\n' + '\n'.join(lines) + '\n<!-- END:RULES -->', s, flags=re.S)
rows = ['| id | property | what the change is / needs to manifest | reported by | initially missed |', '|---|---|---|---|---|']
for d in sorted(glob.glob(os.path.join(ROOT, 'seeded', '*', 'meta.json'))):
    m = json.load(open(d))
    rows.append('| %s | %s | %s | %s | %s |' % (m['id'], m['property'], m['needs_to_manifest'].replace('|', '/'), ', '.join('`%s`' % r for r in m['detected_by_rules']), 'yes' if m.get('initially_missed') else 'no'))
s = re.sub(r'<!-- BEGIN:SEEDED -->.*?<!-- END:SEEDED -->', lambda m: '<!-- BEGIN:SEEDED -->\n' + '\n'.join(rows) + '\n<!-- END:SEEDED -->', s, flags=re.S)
open(os.path.join(ROOT, 'DESIGN.md'), 'w').write(s)
print('rules for %d properties, %d seeded changes' % (len(byprop), len(rows) - 2))
