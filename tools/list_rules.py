"""Print / write the rule ids that produce instances per property on the current tree.
Review the diff by hand before committing analysis/expected_rules.json."""
import json, os, sys
sys.path.insert(0, os.path.join(os.path.dirname(os.path.abspath(__file__)), '..', 'analysis'))
import extract, engine
fd = extract.facts_dir(os.environ.get('PIE_REPO', '/repo'), 'all')
F, roles, R = engine.run_all(fd)
out = {}
for o in R.obs:
    for p in o['props']:
        out.setdefault(p, set()).add(o['rule'])
out = {p: sorted(v) for p, v in sorted(out.items())}
if '--write' in sys.argv:
    json.dump(out, open(os.path.join(os.path.dirname(os.path.abspath(__file__)), '..', 'analysis', 'expected_rules.json'), 'w'), indent=1)
for p, v in out.items():
    print(p, len(v), ' '.join(v))
bad = [o for o in R.obs if not o['ok']]
print('failing:', len(bad))
for o in bad: print('  ', o['status'], o['rule'], o['key'], o['msg'][:200])
