//! Demonstration of known finding K2 (C20): the three validation queries that can abort a build
//! (cycle search behind the reserved require edge, recorded writer, recorded readers) consult *all*
//! recorded edges, including those of tasks that have not been validated in the current session and
//! would no longer create them in the current state. No build aborts in any earlier session here: the
//! tasks merely change roles between two states, each of which is violation-free. In every test a
//! from-scratch build (fresh `Pie`) of all known tasks in the current state returns; the incremental
//! build on the old instance aborts. All four tests FAIL on the current tree (recorded, not repaired).
//! Install as pie/tests/role_inversion_demo.rs; run: cargo test -p pie --test role_inversion_demo --offline
use std::fs;
use std::io::{Read, Write};
use std::panic::{catch_unwind, AssertUnwindSafe};
use std::path::PathBuf;

use pie::resource::file::ModifiedChecker;
use pie::task::AlwaysConsistent;
use pie::{Context, Pie, Task};

/// The mode is read *through the context* (a declared, checked dependency), so every task is a
/// deterministic function of declared inputs.
fn mode<C: Context>(ctx: &mut C, p: &PathBuf) -> String {
  let mut s = String::new();
  ctx.read(p, ModifiedChecker).unwrap().as_file().unwrap().read_to_string(&mut s).unwrap();
  s
}
fn put<C: Context>(ctx: &mut C, p: &PathBuf, text: &'static [u8]) {
  ctx.write(p, ModifiedChecker, |f| f.write_all(text).map_err(|e| e.into())).unwrap();
}
fn msg(e: Box<dyn std::any::Any + Send>) -> String {
  e.downcast_ref::<String>().cloned().or_else(|| e.downcast_ref::<&str>().map(|s| s.to_string())).unwrap_or_default()
}

// ---- 1. cycle search: A required B in state 1; in state 2 B requires A and A requires nothing -------------------
#[derive(Clone, PartialEq, Eq, Hash, Debug)]
struct A(PathBuf);
#[derive(Clone, PartialEq, Eq, Hash, Debug)]
struct B(PathBuf);
impl Task for A {
  type Output = u8;
  fn execute<C: Context>(&self, ctx: &mut C) -> u8 {
    if mode(ctx, &self.0) == "a-requires-b" { ctx.require(&B(self.0.clone()), AlwaysConsistent) + 1 } else { 1 }
  }
}
impl Task for B {
  type Output = u8;
  fn execute<C: Context>(&self, ctx: &mut C) -> u8 {
    if mode(ctx, &self.0) == "b-requires-a" { ctx.require(&A(self.0.clone()), AlwaysConsistent) + 1 } else { 1 }
  }
}

#[test]
fn stale_require_edge_causes_spurious_cycle() {
  let dir = dev_util::create_temp_dir().unwrap();
  let m = dir.path().join("mode");
  fs::write(&m, "a-requires-b").unwrap();
  let mut pie = Pie::default();
  assert_eq!(pie.new_session().require(&A(m.clone())), 2); // state 1: A -> B, no violation
  dev_util::write_until_modified(&m, "b-requires-a").unwrap(); // state 2: B -> A, no violation
  let mut fresh = Pie::default();
  assert_eq!(fresh.new_session().require(&B(m.clone())), 2, "from-scratch build of the current state returns");
  assert_eq!(fresh.new_session().require(&A(m.clone())), 1);
  let r = catch_unwind(AssertUnwindSafe(|| pie.new_session().require(&B(m.clone()))));
  assert_eq!(r.map_err(msg), Ok(2), "the incremental build must return what the from-scratch build returns");
}

// ---- 2./3./4. W wrote (or R read) F in state 1; in state 2 another task takes that role ---------------------------
#[derive(Clone, PartialEq, Eq, Hash, Debug)]
struct W(PathBuf, PathBuf);
#[derive(Clone, PartialEq, Eq, Hash, Debug)]
struct V(PathBuf, PathBuf);
#[derive(Clone, PartialEq, Eq, Hash, Debug)]
struct R(PathBuf, PathBuf);
impl Task for W {
  type Output = ();
  fn execute<C: Context>(&self, ctx: &mut C) { if mode(ctx, &self.0) == "w-writes" { put(ctx, &self.1, b"w"); } }
}
impl Task for V {
  type Output = ();
  fn execute<C: Context>(&self, ctx: &mut C) { if mode(ctx, &self.0) == "v-writes" { put(ctx, &self.1, b"v"); } }
}
impl Task for R {
  type Output = String;
  fn execute<C: Context>(&self, ctx: &mut C) -> String {
    if mode(ctx, &self.0) == "r-reads" { let f = self.1.clone(); mode(ctx, &f) } else { String::new() }
  }
}

/// recorded-writer / writing side: W wrote F; now V writes F and W does not.
#[test]
fn stale_write_edge_causes_spurious_overlap() {
  let dir = dev_util::create_temp_dir().unwrap();
  let (m, f) = (dir.path().join("mode"), dir.path().join("f"));
  fs::write(&m, "w-writes").unwrap();
  let mut pie = Pie::default();
  pie.new_session().require(&W(m.clone(), f.clone()));
  pie.new_session().require(&V(m.clone(), f.clone())); // V known, writes nothing in state 1
  dev_util::write_until_modified(&m, "v-writes").unwrap();
  let mut fresh = Pie::default();
  fresh.new_session().require(&V(m.clone(), f.clone()));
  fresh.new_session().require(&W(m.clone(), f.clone())); // from scratch: one writer (V), no overlap
  let r = catch_unwind(AssertUnwindSafe(|| pie.new_session().require(&V(m.clone(), f.clone()))));
  assert_eq!(r.map_err(msg), Ok(()), "no overlapping write exists in the current state");
}

/// recorded-readers / writing side: R read the (then source) file F; now R does not read it and V generates it.
#[test]
fn stale_read_edge_causes_spurious_hidden_dependency_on_write() {
  let dir = dev_util::create_temp_dir().unwrap();
  let (m, f) = (dir.path().join("mode"), dir.path().join("f"));
  fs::write(&m, "r-reads").unwrap();
  fs::write(&f, "source").unwrap();
  let mut pie = Pie::default();
  assert_eq!(pie.new_session().require(&R(m.clone(), f.clone())), "source");
  dev_util::write_until_modified(&m, "v-writes").unwrap();
  let mut fresh = Pie::default();
  fresh.new_session().require(&V(m.clone(), f.clone()));
  assert_eq!(fresh.new_session().require(&R(m.clone(), f.clone())), "");
  let r = catch_unwind(AssertUnwindSafe(|| pie.new_session().require(&V(m.clone(), f.clone()))));
  assert_eq!(r.map_err(msg), Ok(()), "R no longer reads F: no hidden dependency exists in the current state");
}

/// recorded-writer / reading side: W generated F; now W does not, and R reads F as a plain source file.
#[test]
fn stale_write_edge_causes_spurious_hidden_dependency_on_read() {
  let dir = dev_util::create_temp_dir().unwrap();
  let (m, f) = (dir.path().join("mode"), dir.path().join("f"));
  fs::write(&m, "w-writes").unwrap();
  let mut pie = Pie::default();
  pie.new_session().require(&W(m.clone(), f.clone()));
  dev_util::write_until_modified(&m, "r-reads").unwrap();
  let mut fresh = Pie::default();
  assert_eq!(fresh.new_session().require(&R(m.clone(), f.clone())), "w");
  fresh.new_session().require(&W(m.clone(), f.clone()));
  let r = catch_unwind(AssertUnwindSafe(|| pie.new_session().require(&R(m.clone(), f.clone()))));
  assert_eq!(r.map_err(msg), Ok("w".to_string()), "W no longer writes F: reading it is not a hidden dependency");
}
