//! Demonstrations of the four genuine defects D1-D4 (see /verif/DESIGN.md section 4 and
//! /verif/known_findings.jsonl). Copy to pie/tests/defects_demo.rs and run
//! `cargo test -p pie --features file_hash_checker --test defects_demo --offline`.
//! Each test fails on the pinned snapshot and passes after the corresponding `fix:` commit.
//! (Documentation of the findings only: no check in MANIFEST.json executes this file.)
use std::fs;
use std::panic::{catch_unwind, AssertUnwindSafe};
use std::path::PathBuf;
use std::sync::atomic::{AtomicBool, AtomicUsize, Ordering};

use pie::resource::file::hash_checker::HashChecker;
use pie::resource::file::ModifiedChecker;
use pie::task::EqualsChecker;
use pie::tracker::event::Event;
use pie::{Context, Pie, ResourceChecker, Task};

static SUB_EXECS: AtomicUsize = AtomicUsize::new(0);

#[derive(Clone, PartialEq, Eq, Hash, Debug)]
struct Sub(PathBuf);
impl Task for Sub {
  type Output = String;
  fn execute<C: Context>(&self, ctx: &mut C) -> String {
    SUB_EXECS.fetch_add(1, Ordering::SeqCst);
    let mut r = ctx.read(&self.0, ModifiedChecker).unwrap();
    let mut s = String::new();
    if let Some(f) = r.as_file() { use std::io::Read; f.read_to_string(&mut s).unwrap(); }
    s
  }
}
#[derive(Clone, PartialEq, Eq, Hash, Debug)]
struct Top(PathBuf, PathBuf);
impl Task for Top {
  type Output = String;
  fn execute<C: Context>(&self, ctx: &mut C) -> String {
    use std::io::Read;
    let mut x = String::new();
    ctx.read(&self.0, ModifiedChecker).unwrap().as_file().unwrap().read_to_string(&mut x).unwrap();
    let mut out = x.clone();
    if x == "use-sub" { out.push_str(&ctx.require(&Sub(self.1.clone()), EqualsChecker)); }
    // second access to the same target with the same checker
    let _ = ctx.read(&self.0, ModifiedChecker).unwrap();
    out
  }
}

/// D1 (C11, C02): re-inserting an existing edge moves it to the back of the adjacency order.
#[test]
fn d1_existing_edge_keeps_first_insertion_order() {
  let dir = dev_util::create_temp_dir().unwrap();
  let x = dir.path().join("x"); let y = dir.path().join("y");
  fs::write(&x, "use-sub").unwrap(); fs::write(&y, "1").unwrap();
  let mut pie = Pie::default();
  let top = Top(x.clone(), y.clone());
  pie.new_session().require(&top);
  assert_eq!(SUB_EXECS.load(Ordering::SeqCst), 1);
  dev_util::write_until_modified(&x, "no-sub").unwrap();
  dev_util::write_until_modified(&y, "2").unwrap();
  let out = pie.new_session().require(&top);
  assert_eq!(out, "no-sub");
  // A from-scratch build of the current state never requires Sub.
  assert_eq!(SUB_EXECS.load(Ordering::SeqCst), 1, "Sub was executed although no from-scratch build requires it");
}

/// D2 (C17): Event::is_build_end answers for the wrong variant.
#[test]
fn d2_is_build_end() {
  assert!(Event::BuildEnd.is_build_end());
  assert!(!Event::BuildStart.is_build_end());
}

static B_PANICS: AtomicBool = AtomicBool::new(true);
#[derive(Clone, PartialEq, Eq, Hash, Debug)]
struct B;
impl Task for B {
  type Output = u8;
  fn execute<C: Context>(&self, _ctx: &mut C) -> u8 { if B_PANICS.load(Ordering::SeqCst) { panic!("B fails") } 7 }
}
#[derive(Clone, PartialEq, Eq, Hash, Debug)]
struct A;
impl Task for A {
  type Output = u8;
  fn execute<C: Context>(&self, ctx: &mut C) -> u8 { ctx.require(&B, EqualsChecker) + 1 }
}

/// D3 (C19): after an aborted build a later session fails with an internal-invariant ("BUG") panic.
#[test]
fn d3_usable_after_abort() {
  let mut pie = Pie::default();
  let r = catch_unwind(AssertUnwindSafe(|| { pie.new_session().require(&A); }));
  assert!(r.is_err());
  B_PANICS.store(false, Ordering::SeqCst); // cause removed
  let r = catch_unwind(AssertUnwindSafe(|| pie.new_session().require(&A)));
  assert_eq!(r.ok(), Some(8), "later session must return the from-scratch result, not abort with a BUG panic");
}

/// D4 (C13): directory listings {"b","a"} / {"ab","c"} ... hash the unframed concatenation of names.
#[test]
fn d4_directory_name_sets() {
  let dir = dev_util::create_temp_dir().unwrap();
  let d = dir.path().join("d");
  fs::create_dir(&d).unwrap();
  fs::write(d.join("ab"), "").unwrap();
  let mut pie = Pie::default();
  let stamp = HashChecker.stamp(&d, pie.resource_state_mut::<PathBuf>()).unwrap();
  fs::remove_file(d.join("ab")).unwrap();
  fs::write(d.join("a"), "").unwrap();
  fs::write(d.join("b"), "").unwrap();
  // whatever order read_dir uses, one of the two name sets below concatenates to "ab"
  let names: Vec<_> = fs::read_dir(&d).unwrap().map(|e| e.unwrap().file_name().into_string().unwrap()).collect();
  if names.concat() != "ab" { // listing order is b,a: use {"ba"} as the single-entry directory instead
    fs::remove_file(d.join("a")).unwrap(); fs::remove_file(d.join("b")).unwrap();
    fs::write(d.join("ba"), "").unwrap();
    let stamp2 = HashChecker.stamp(&d, pie.resource_state_mut::<PathBuf>()).unwrap();
    fs::remove_file(d.join("ba")).unwrap();
    fs::write(d.join("a"), "").unwrap(); fs::write(d.join("b"), "").unwrap();
    let inc = HashChecker.check(&d, pie.resource_state_mut::<PathBuf>(), &stamp2).unwrap();
    assert!(inc.is_some(), "different entry-name set reported consistent");
    return;
  }
  let inc = HashChecker.check(&d, pie.resource_state_mut::<PathBuf>(), &stamp).unwrap();
  assert!(inc.is_some(), "different entry-name set reported consistent");
}
