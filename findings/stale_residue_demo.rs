//! Demonstration of known finding K1 (C19): edges recorded by an execution that was later aborted stay
//! in the dependency graph until that task is re-executed, and the validation queries (cycle search,
//! recorded writer, recorded readers) consult them. A later session that no longer contains the
//! violation can therefore abort again. Both tests FAIL on the current tree (recorded, not repaired).
//! Install as pie/tests/stale_residue_demo.rs; run: cargo test -p pie --test stale_residue_demo --offline
use std::fs;
use std::panic::{catch_unwind, AssertUnwindSafe};
use std::path::PathBuf;

use pie::resource::file::ModifiedChecker;
use pie::task::AlwaysConsistent;
use pie::{Context, Pie, Task};

fn mode(p: &PathBuf) -> String { fs::read_to_string(p).unwrap() }

#[derive(Clone, PartialEq, Eq, Hash, Debug)]
struct A(PathBuf);
#[derive(Clone, PartialEq, Eq, Hash, Debug)]
struct B(PathBuf);
impl Task for A {
  type Output = u8;
  fn execute<C: Context>(&self, ctx: &mut C) -> u8 {
    if mode(&self.0) == "cycle" { ctx.require(&B(self.0.clone()), AlwaysConsistent); }
    1
  }
}
impl Task for B {
  type Output = u8;
  fn execute<C: Context>(&self, ctx: &mut C) -> u8 { ctx.require(&A(self.0.clone()), AlwaysConsistent) + 1 }
}

/// Session 1 aborts with a genuine cycle A -> B -> A. Then A stops requiring B. Requiring B in session 2
/// must succeed (a from-scratch build does), but the reserved edge A -> B left by the aborted execution
/// of A makes the cycle check fire again.
#[test]
fn stale_reserved_edge_causes_spurious_cycle() {
  let dir = dev_util::create_temp_dir().unwrap();
  let m = dir.path().join("mode");
  fs::write(&m, "cycle").unwrap();
  let mut pie = Pie::default();
  let r = catch_unwind(AssertUnwindSafe(|| { pie.new_session().require(&A(m.clone())); }));
  assert!(r.is_err(), "session 1 must abort with the cycle");
  fs::write(&m, "ok").unwrap(); // cause removed
  let r = catch_unwind(AssertUnwindSafe(|| pie.new_session().require(&B(m.clone()))));
  assert_eq!(r.ok(), Some(2), "no cycle exists any more: a from-scratch build returns 2");
}

#[derive(Clone, PartialEq, Eq, Hash, Debug)]
struct W(PathBuf, PathBuf);
#[derive(Clone, PartialEq, Eq, Hash, Debug)]
struct V(PathBuf, PathBuf);
impl Task for W {
  type Output = ();
  fn execute<C: Context>(&self, ctx: &mut C) {
    if mode(&self.0) == "w-writes" {
      ctx.write(&self.1, ModifiedChecker, |f| { use std::io::Write; f.write_all(b"w").map_err(|e| e.into()) }).unwrap();
      panic!("W fails after writing");
    }
  }
}
impl Task for V {
  type Output = ();
  fn execute<C: Context>(&self, ctx: &mut C) {
    ctx.write(&self.1, ModifiedChecker, |f| { use std::io::Write; f.write_all(b"v").map_err(|e| e.into()) }).unwrap();
  }
}

/// W writes F and then panics. Afterwards W no longer writes F; V does. Requiring V must succeed.
#[test]
fn stale_write_edge_causes_spurious_overlap() {
  let dir = dev_util::create_temp_dir().unwrap();
  let m = dir.path().join("mode");
  let f = dir.path().join("f");
  fs::write(&m, "w-writes").unwrap();
  let mut pie = Pie::default();
  let r = catch_unwind(AssertUnwindSafe(|| { pie.new_session().require(&W(m.clone(), f.clone())); }));
  assert!(r.is_err());
  fs::write(&m, "v-writes").unwrap(); // cause removed: W does not write any more
  let r = catch_unwind(AssertUnwindSafe(|| pie.new_session().require(&V(m.clone(), f.clone()))));
  assert!(r.is_ok(), "no overlapping write exists any more");
}
