"""Analysis core (E2): loads MIR facts and offers the primitives the rules are made of.

  * normal CFG (cleanup blocks and unwind edges dropped, panics are diverging exits)
  * expanded graph with one node per switch edge, so that an *edge* can be avoided / required
  * reachability-with-avoidance queries (= must-before / must-after with a witness path)
  * ORIG: backward provenance of operands through copies, moves, refs, casts, identity calls
  * guards: what a switch edge asserts about the value it tests (variant / bool polarity)
  * keyed must-events with callee summaries

All of this is plain graph work over what the compiler emitted; no pie code runs.
"""
import glob
import json
import os
import re
from collections import defaultdict, namedtuple

# --------------------------------------------------------------------------------------------
# paths


def strip_generics(s):
    """Remove `::<...>` groups and lifetimes from a printed path."""
    out = []
    i = 0
    n = len(s)
    while i < n:
        if s.startswith('::<', i):
            depth = 0
            j = i + 2
            while j < n:
                if s[j] == '<':
                    depth += 1
                elif s[j] == '>' and s[j - 1] != '-':
                    depth -= 1
                    if depth == 0:
                        break
                j += 1
            i = j + 1
            continue
        out.append(s[i])
        i += 1
    return ''.join(out)


def type_head(t):
    """`&mut crate::store::Store` -> `crate::store::Store`; `Option<&T>` -> `std::option::Option`."""
    t = t.strip()
    while True:
        if t.startswith('&'):
            t = t[1:].lstrip()
            if t.startswith("'"):
                t = t.split(' ', 1)[1] if ' ' in t else t
            if t.startswith('mut '):
                t = t[4:]
            continue
        break
    depth = 0
    for i, c in enumerate(t):
        if c == '<' and i > 0:
            return t[:i].rstrip(':')
        if c == '<':
            depth += 1
    return t


def norm_ty(s):
    """`(dyn Tr + 'static)` -> `dyn Tr`."""
    return re.sub(r"\(dyn ([^()]*?) \+ '\w+\)", r'dyn \1', s)


Origin = namedtuple('Origin', 'kind key path')
# kinds: 'arg' (key = local index), 'call' (key = bb), 'const' (key = repr), 'aggr' (key=(bb,si)),
#        'op' (key=(bb,si)), 'local' (key = local index; multiply/un-defined), 'discr' (key = frozenset of origins)


IDENTITY_CALLS = {
    # (qname suffix) -> index of the argument whose origin flows to the result
    'std::clone::Clone::clone': 0,
    'std::borrow::ToOwned::to_owned': 0,
    'std::borrow::Borrow::borrow': 0,
    'std::borrow::BorrowMut::borrow_mut': 0,
    'std::ops::Deref::deref': 0,
    'std::ops::DerefMut::deref_mut': 0,
    'std::convert::AsRef::as_ref': 0,
    'std::convert::AsMut::as_mut': 0,
    'std::option::Option::as_ref': 0,
    'std::option::Option::as_mut': 0,
    'std::option::Option::as_deref': 0,
    'std::option::Option::copied': 0,
    'std::option::Option::cloned': 0,
    'std::result::Result::as_ref': 0,
    'std::boxed::Box::new': 0,
    'std::convert::Into::into': 0,
    'std::convert::From::from': 0,
    'std::boxed::Box::as_ref': 0,
    'std::boxed::Box::as_mut': 0,
    'std::iter::IntoIterator::into_iter': 0,
    # value-preserving on the success side: `x.map_err(f)?` still denotes x's Ok payload
    'std::ops::Try::branch': 0,
    'std::result::Result::map_err': 0,
    # the payload flows through (or the call diverges)
    'std::option::Option::unwrap': 0,
    'std::option::Option::expect': 0,
    'std::result::Result::unwrap': 0,
    'std::result::Result::expect': 0,
}

CLOSURE_CALLS = ('std::ops::FnOnce::call_once', 'std::ops::FnMut::call_mut', 'std::ops::Fn::call')

PANIC_FNS = ('core::panicking::', 'std::rt::begin_panic', 'std::panicking::', 'core::option::expect_failed',
             'core::result::unwrap_failed', 'core::option::unwrap_failed')

BUILTIN_ENUMS = {
    'std::option::Option': {0: 'None', 1: 'Some'},
    'std::result::Result': {0: 'Ok', 1: 'Err'},
    'std::ops::ControlFlow': {0: 'Continue', 1: 'Break'},
    'std::cmp::Ordering': {-1: 'Less', 0: 'Equal', 1: 'Greater', 255: 'Less'},
    'std::borrow::Cow': {0: 'Borrowed', 1: 'Owned'},
    'std::collections::hash_map::Entry': {0: 'Occupied', 1: 'Vacant'},
}


# bool-returning variant tests: qname -> (variant asserted when true, all variants)
VARIANT_TESTS = {
    'std::result::Result::is_err': ('Err', ('Ok', 'Err')), 'std::result::Result::is_ok': ('Ok', ('Ok', 'Err')),
    'std::option::Option::is_some': ('Some', ('Some', 'None')), 'std::option::Option::is_none': ('None', ('Some', 'None')),
}


class Call:
    __slots__ = ('body', 'bb', 'f', 'args', 'dest', 'target', 'unwind', 'line', 'from_exp', 'qname', 'name', 'trait',
                 'self_ty', 'gargs', 'local', 'callee_id', 'resolved_id', 'resolved', 'indirect', 'krate', 'impl_self',
                 'dest_ty', 'impl_trait')

    def __init__(self, body, bb, term):
        self.body = body
        self.bb = bb
        f = term['f']
        self.args = [body.facts.operand(a) for a in term['args']]
        self.dest = body.facts.place(term['dest'])
        self.dest_ty = body.fix(term.get('dest_ty', ''))
        self.target = term['t'] if term['t'] >= 0 else None
        self.unwind = term['uw']
        self.line = term.get('fl', 0)
        self.from_exp = term.get('fx', False)
        self.indirect = None
        if 'fn' in f:
            fn = f['fn']
            self.f = fn
            self.name = fn.get('name', '')
            self.krate = fn.get('krate', '')
            self.local = fn.get('local', False)
            self.callee_id = fn.get('id')
            self.gargs = [body.fix(g) for g in fn.get('gargs', [])]
            self.trait = body.fix(fn['trait']) if 'trait' in fn else None
            self.self_ty = body.fix(fn['self_ty']) if 'self_ty' in fn else None
            self.impl_self = body.fix(fn['impl_self']) if 'impl_self' in fn else None
            self.impl_trait = body.fix(fn['impl_trait']) if 'impl_trait' in fn else None
            self.resolved_id = fn.get('resolved_id')
            self.resolved = body.fix(fn['resolved']) if 'resolved' in fn else None
            if fn.get('self_closure') and self.trait in ('std::ops::FnOnce', 'std::ops::FnMut', 'std::ops::Fn') and not self.resolved_id:
                self.resolved_id = fn['self_closure']
            p = strip_generics(body.fix(fn['path']))
            if self.trait:
                self.qname = strip_generics(self.trait) + '::' + self.name
            elif p.startswith('<') and '>::' in p:
                inner, rest = p[1:].split('>::', 1)
                if ' as ' in inner:
                    # `<Ty as Trait>::m` : a trait-impl method named directly
                    tr = inner.split(' as ', 1)[1]
                    self.qname = strip_generics(tr) + '::' + rest
                    self.impl_trait = self.impl_trait or tr
                else:
                    inner = inner.strip('()')
                    inner = re.sub(r" \+ '\w+", '', inner)
                    self.qname = inner + '::' + rest
            else:
                self.qname = p
        else:
            self.f = None
            self.indirect = body.facts.operand(f['indirect']) if 'indirect' in f else None
            self.name = ''
            self.qname = '<indirect>'
            self.krate = ''
            self.local = False
            self.callee_id = None
            self.gargs = []
            self.trait = None
            self.self_ty = None
            self.impl_self = None
            self.impl_trait = None
            self.resolved_id = None
            self.resolved = None

    def is_(self, *qnames):
        return self.qname in qnames

    def where(self):
        return '%s:%d' % (self.body.file, self.line)

    def __repr__(self):
        return 'call %s @%s bb%d' % (self.qname, self.where(), self.bb)


class Body:
    def __init__(self, facts, crate, d):
        self.facts = facts
        self.crate = crate
        self.d = d
        self.id = d['id']
        self.kind = d['kind']
        self.name = d.get('name', '')
        self.file = d['file']
        self.line = d['line']
        self.line_hi = d.get('line_hi', d['line'])
        self.argc = d['argc']
        self.root = d.get('root')
        self.parent = d.get('parent')
        self.generics = d.get('generics', [])
        self.path = strip_generics(self.fix(d['path']))
        self.impl_self = self.fix(d['impl_self']) if 'impl_self' in d else None
        self.impl_trait = strip_generics(self.fix(d['impl_trait'])) if 'impl_trait' in d else None
        self.impl_trait_ref = self.fix(d['impl_trait_ref']) if 'impl_trait_ref' in d else None
        self.impl_id = d.get('impl_id')
        self.in_trait = self.fix(d['in_trait']) if 'in_trait' in d else None
        self.locals = d['locals']
        self.blocks = d['blocks']
        self.nblocks = len(self.blocks)
        self._calls = None
        self._defs = None
        self._stores = None
        self._succ = None
        self._guards = None
        self._orig_cache = {}

    def fix(self, s):
        """Replace the `crate::` prefix the compiler prints for local items by the crate name."""
        return norm_ty(re.sub(r'\bcrate::', self.crate + '::', s))

    def local_ty(self, l):
        return self.fix(self.locals[l]['ty'])

    def local_name(self, l):
        return self.locals[l].get('n')

    def is_test_code(self):
        return '::test::' in self.id or '::tests::' in self.id or self.id.endswith('::test') or self.id.endswith('::tests')

    # ---- statements / calls -------------------------------------------------------------
    @property
    def calls(self):
        if self._calls is None:
            self._calls = {}
            for i, b in enumerate(self.blocks):
                t = b['term']
                if t['k'] == 'call':
                    self._calls[i] = Call(self, i, t)
        return self._calls

    def call_at(self, bb):
        return self.calls.get(bb)

    def find_calls(self, pred, normal_only=True):
        out = []
        for bb, c in sorted(self.calls.items()):
            if normal_only and self.blocks[bb]['cleanup']:
                continue
            if pred(c):
                out.append(c)
        return out

    @property
    def defs(self):
        """local -> list of ('stmt', bb, si, rv) | ('call', bb, Call) for whole-local definitions."""
        if self._defs is None:
            self._defs = defaultdict(list)
            self._stores = []
            for i, b in enumerate(self.blocks):
                if b['cleanup']:
                    continue
                for si, s in enumerate(b['stmts']):
                    if s['k'] == 'a':
                        p = s['p']
                        if not p['p']:
                            self._defs[p['l']].append(('stmt', i, si, s['rv']))
                        else:
                            self._stores.append((i, si, self.facts.place(p), s['rv'], s.get('ln', 0)))
                t = b['term']
                if t['k'] == 'call':
                    d = t['dest']
                    if not d['p']:
                        self._defs[d['l']].append(('call', i, self.calls[i]))
        return self._defs

    @property
    def stores(self):
        """Assignments through a projection (field/deref writes): (bb, si, place, rv, line)."""
        self.defs
        return self._stores

    # ---- CFG ----------------------------------------------------------------------------
    def is_diverging_block(self, bb):
        t = self.blocks[bb]['term']
        if t['k'] == 'call' and t['t'] < 0:
            return True
        return t['k'] in ('unreachable', 'resume', 'terminate')

    @property
    def succ(self):
        """bb -> list of (target, label); label None or ('sw', bb, value|'otherwise')."""
        if self._succ is None:
            self._succ = {}
            for i, b in enumerate(self.blocks):
                t = b['term']
                k = t['k']
                out = []
                if k == 'goto':
                    out.append((t['t'], None))
                elif k == 'switch':
                    for v, tg in t['arms']:
                        out.append((tg, ('sw', i, int(v))))
                    out.append((t['otherwise'], ('sw', i, 'otherwise')))
                elif k == 'call':
                    if t['t'] >= 0:
                        out.append((t['t'], None))
                elif k in ('drop', 'assert'):
                    out.append((t['t'], None))
                elif k == 'other':
                    pass
                self._succ[i] = out
        return self._succ

    def returns(self):
        return [i for i, b in enumerate(self.blocks) if b['term']['k'] == 'return' and not b['cleanup']]

    # expanded graph: nodes are ints (blocks) and ('e', bb, k) for the k-th out-edge of a switch block
    def xsucc(self, node):
        if isinstance(node, tuple):
            _, bb, k = node
            return [self.succ[bb][k][0]]
        t = self.blocks[node]['term']
        if t['k'] == 'switch':
            return [('e', node, k) for k in range(len(self.succ[node]))]
        return [tg for tg, _ in self.succ[node]]

    def reach(self, starts, avoid=lambda n: False, stop=lambda n: False):
        """Nodes reachable from `starts` in the expanded normal CFG without entering an avoided node.
        Returns dict node -> predecessor (for witness paths)."""
        seen = {}
        stack = []
        for s in starts:
            if not avoid(s) and s not in seen:
                seen[s] = None
                stack.append(s)
        while stack:
            n = stack.pop()
            if stop(n):
                continue
            for m in self.xsucc(n):
                if m in seen or avoid(m):
                    continue
                seen[m] = n
                stack.append(m)
        return seen

    def witness(self, seen, node):
        path = []
        while node is not None:
            path.append(node)
            node = seen.get(node)
        path.reverse()
        return path

    def fmt_path(self, path, limit=14):
        out = []
        for n in path:
            if isinstance(n, tuple):
                _, bb, k = n
                lab = self.succ[bb][k][1]
                g = self.guard_of(bb, k)
                out.append('  bb%d --[%s]-->' % (bb, g.describe() if g else lab[2]))
            else:
                c = self.call_at(n)
                ln = self.blocks[n].get('tln', 0)
                if c:
                    out.append('  bb%d %s:%d call %s' % (n, self.file, c.line or ln, c.qname))
                else:
                    out.append('  bb%d %s:%d %s' % (n, self.file, ln, self.blocks[n]['term']['k']))
        if len(out) > limit:
            out = out[:limit // 2] + ['  ...'] + out[-limit // 2:]
        return '\n'.join(out)

    def must_before(self, site, avoid, start=0):
        """None if every normal path from entry to `site` enters an `avoid` node first; otherwise a
        witness path (list of nodes) that reaches `site` while avoiding them."""
        seen = self.reach([start], avoid=avoid, stop=lambda n: n == site)
        if site in seen:
            return self.witness(seen, site)
        return None

    def must_after(self, site, avoid, exits=None):
        """None if every normal path from after `site` to a normal exit (return) enters an `avoid` node;
        otherwise a witness path from site to the exit."""
        exits = set(self.returns() if exits is None else exits)
        starts = self.xsucc(site)
        seen = self.reach(starts, avoid=avoid)
        for e in exits:
            if e in seen:
                return [site] + self.witness(seen, e)
        return None

    # ---- provenance ---------------------------------------------------------------------
    def orig_operand(self, op, _seen=None, live=None):
        k = op[0]
        if k in ('c', 'm'):
            return self.orig_place(op[1], _seen, live)
        if k == 'k':
            c = op[1]
            if 'fn' in c:
                return frozenset([Origin('const', 'fn:' + c['fn'].get('id', ''), ())])
            return frozenset([Origin('const', c.get('int', c.get('v', '?')), ())])
        return frozenset([Origin('local', -1, ())])

    def orig_place(self, place, _seen=None, live=None):
        local, proj = place
        base = self.orig_local(local, _seen, live)
        path = [p for p in proj if p != '*']
        if not path:
            return base
        out = set()
        for o in base:
            out |= self._project(o, path, _seen, live)
        return frozenset(out)

    def _project(self, o, path, _seen, live=None):
        """Apply field/downcast projections to an origin; look into aggregates."""
        cur = {o}
        for p in path:
            nxt = set()
            for c in cur:
                if c.kind == 'aggr' and p[0] == 'f' and (not c.path or (len(c.path) == 1 and c.path[0][0] == 'd')):
                    bb, si = c.key
                    rv = self.blocks[bb]['stmts'][si]['rv']
                    ops = rv['ops']
                    idx = p[1]
                    vname = rv['ak'].get('variant')
                    want = c.path[0][1] if c.path else None
                    # `x?` : Try::branch is value-preserving for ORIG, so `Continue.0` of the branch result is the Some / Ok payload of x
                    if want == 'Continue' and vname in ('Some', 'Ok'):
                        want = vname
                    elif want == 'Continue' and vname in ('None', 'Err'):
                        continue
                    if c.path and vname is not None and want != vname:
                        continue  # projecting a variant this aggregate does not have: infeasible
                    if idx < len(ops):
                        nxt |= self.orig_operand(self.facts.operand(ops[idx]), _seen, live)
                        continue
                if p[0] == 'd':
                    # `from_residual` builds None / Err(..): it has no Some / Ok payload to project
                    if c.kind == 'call' and not c.path and p[1] in ('Some', 'Ok') and c.key in self.calls and self.calls[c.key].qname == 'std::ops::FromResidual::from_residual' \
                            and (self.calls[c.key].dest_ty or '').startswith(('std::option::Option', 'std::result::Result')):
                        continue
                    nxt.add(Origin(c.kind, c.key, c.path + (('d', p[1]),)))
                elif p[0] == 'f':
                    nxt.add(Origin(c.kind, c.key, c.path + (('f', p[2]),)))
                else:
                    nxt.add(Origin(c.kind, c.key, c.path + ((p[0] if isinstance(p, tuple) else p),)))
            cur = nxt
        return cur

    def orig_local(self, l, _seen=None, live=None):
        if live is None and l in self._orig_cache:
            return self._orig_cache[l]
        if _seen is None:
            _seen = set()
        if l in _seen:
            return frozenset([Origin('local', l, ())])
        _seen = _seen | {l}
        defs = self.defs.get(l, [])
        if live is not None:
            defs = [d for d in defs if d[1] in live]
        out = set()
        if 1 <= l <= self.argc:
            out.add(Origin('arg', l, ()))
        if not defs and not out:
            out.add(Origin('local', l, ()))
        for d in defs:
            out |= self._orig_def(d, _seen, live)
        res = frozenset(out)
        if len(_seen) == 1 and live is None:
            self._orig_cache[l] = res
        return res

    def forward_calls(self, local, through=()):
        """Forward slice by locals: calls that receive `local` (or a copy/ref/cast of it, or the result
        of a call in `through` applied to it) as an argument. Returns [(call, arg_index)] in discovery order."""
        seen = set()
        work = [local]
        out = []
        while work:
            l = work.pop()
            if l in seen:
                continue
            seen.add(l)
            for i, b in enumerate(self.blocks):
                if b['cleanup']:
                    continue
                for s in b['stmts']:
                    if s['k'] != 'a' or s['p']['p']:
                        continue
                    rv = s['rv']
                    src = None
                    if rv['k'] in ('use', 'cast'):
                        op = self.facts.operand(rv['op'])
                        if op[0] in ('c', 'm'):
                            src = op[1][0]
                    elif rv['k'] in ('ref', 'rawptr'):
                        src = rv['pl']['l']
                    if src == l:
                        work.append(s['p']['l'])
                c = self.calls.get(i)
                if c is None:
                    continue
                for ai, a in enumerate(c.args):
                    if a[0] in ('c', 'm') and a[1][0] == l:
                        out.append((c, ai))
                        if c.qname in through and not c.dest[1]:
                            work.append(c.dest[0])
        return out

    def _orig_def(self, d, _seen=None, live=None):
        """origins contributed by one definition record (see `defs`)"""
        out = set()
        if d[0] == 'stmt':
            _, bb, si, rv = d
            k = rv['k']
            if k == 'use':
                out |= self.orig_operand(self.facts.operand(rv['op']), _seen, live)
            elif k in ('ref', 'rawptr'):
                out |= self.orig_place(self.facts.place(rv['pl']), _seen, live)
            elif k == 'cast':
                out |= self.orig_operand(self.facts.operand(rv['op']), _seen, live)
            elif k == 'aggr':
                out.add(Origin('aggr', (bb, si), ()))
            elif k == 'discr':
                out.add(Origin('discr', self.orig_place(self.facts.place(rv['pl']), _seen, live), ()))
            else:
                out.add(Origin('op', (bb, si), ()))
        else:
            _, bb, call = d
            idx = IDENTITY_CALLS.get(call.qname)
            acc = None if idx is not None else self.facts.accessor_summary(call)
            if idx is not None and idx < len(call.args):
                out |= self.orig_operand(call.args[idx], _seen, live)
            elif acc is not None and acc[0] < len(call.args):
                for o in self.orig_operand(call.args[acc[0]], _seen, live):
                    out.add(Origin(o.kind, o.key, o.path + acc[1]))
            else:
                out.add(Origin('call', bb, ()))
        return out

    def origin_calls(self, origins):
        """The Call objects among a set of origins (ignoring projections)."""
        return [self.calls[o.key] for o in origins if o.kind == 'call' and o.key in self.calls]

    def describe_origin(self, o):
        if o.kind == 'arg':
            s = self.local_name(o.key) or ('_%d' % o.key)
        elif o.kind == 'call':
            c = self.calls.get(o.key)
            s = '%s(..)@%d' % (c.qname.split('::')[-1] if c else 'call', c.line if c else 0)
        elif o.kind == 'const':
            s = 'const %s' % (o.key,)
        elif o.kind == 'local':
            s = self.local_name(o.key) or ('_%d' % o.key)
        else:
            s = o.kind
        for p in o.path:
            s += '.' + (p[1] if isinstance(p, tuple) else str(p))
        return s

    def describe_origins(self, os_):
        return '{' + ', '.join(sorted(self.describe_origin(o) for o in os_)) + '}'

    # ---- guards --------------------------------------------------------------------------
    def guard_of(self, bb, k):
        return self.guards.get((bb, k))

    @property
    def guards(self):
        """(bb, k) -> Guard for the k-th out-edge of switch block bb."""
        if self._guards is None:
            self._guards = {}
            for i, b in enumerate(self.blocks):
                t = b['term']
                if t['k'] != 'switch' or b['cleanup']:
                    continue
                op = self.facts.operand(t['op'])
                subj = self._switch_subject(op)
                arms = self.succ[i]
                listed = [lab[2] for _, lab in arms if lab[2] != 'otherwise']
                for k, (_, lab) in enumerate(arms):
                    v = lab[2]
                    self._guards[(i, k)] = Guard(self, i, k, subj, v, listed)
        return self._guards

    def _switch_subject(self, op, live=None):
        """What a switch operand tests: ('enum', origins, type) | ('bool', origins, negated) | ('int', origins)."""
        if op[0] not in ('c', 'm'):
            return ('int', self.orig_operand(op), None)
        local, proj = op[1]
        neg = False
        seen = set()
        while True:
            if proj or local in seen:
                break
            seen.add(local)
            defs = self.defs.get(local, [])
            if len(defs) != 1 or defs[0][0] != 'stmt':
                break
            rv = defs[0][3]
            if rv['k'] == 'discr':
                return ('enum', self.orig_place(self.facts.place(rv['pl']), None, live), strip_generics_ty(self.fix(rv.get('ty', ''))))
            if rv['k'] == 'un' and rv['uop'] == 'Not':
                a = self.facts.operand(rv['a'])
                if a[0] in ('c', 'm'):
                    neg = not neg
                    local, proj = a[1]
                    continue
                break
            if rv['k'] == 'use':
                a = self.facts.operand(rv['op'])
                if a[0] in ('c', 'm'):
                    local, proj = a[1]
                    continue
                break
            break
        ty = self.local_ty(local) if not proj else ''
        if ty == 'bool':
            os_ = self.orig_place((local, proj), None, live)
            # `r.is_err()` / `o.is_some()` tested as a bool is a variant test on r / o: same guard as `if let Err(..) = r`
            if os_ and all(o.kind == 'call' and not o.path and o.key in self.calls and self.calls[o.key].qname in VARIANT_TESTS and self.calls[o.key].args for o in os_):
                tests = {self.calls[o.key].qname for o in os_}
                if len(tests) == 1:
                    subj = frozenset().union(*[self.orig_operand(self.calls[o.key].args[0], None, live) for o in os_])
                    yes, both = VARIANT_TESTS[next(iter(tests))]
                    return ('enum', subj, ('test', yes, both, neg))
            return ('bool', os_, neg)
        return ('int', self.orig_place((local, proj), None, live), None)

    def refine(self, base_avoid, start=0):
        """Prune switch edges that are infeasible because the tested value is built, in every block
        still reachable, from aggregates / constants that contradict the edge (a path-insensitive
        constant propagation to a fixpoint). Returns (avoid predicate, reachable-set)."""
        dead = set()
        while True:
            def avoid(n, dead=dead):
                return base_avoid(n) or n in dead
            seen = self.reach([start], avoid=avoid)
            live = frozenset(n for n in seen if not isinstance(n, tuple))
            new = set()
            for bb in live:
                t = self.blocks[bb]['term']
                if t['k'] != 'switch':
                    continue
                subj = self._switch_subject(self.facts.operand(t['op']), live)
                arms = self.succ[bb]
                listed = [lab[2] for _, lab in arms if lab[2] != 'otherwise']
                for k, (_, lab) in enumerate(arms):
                    node = ('e', bb, k)
                    if node in dead or base_avoid(node):
                        continue
                    g = Guard(self, bb, k, subj, lab[2], listed)
                    if not g.feasible_by_constants():
                        new.add(node)
            if not new:
                return avoid, seen
            dead |= new

    def _rd_chain_local(self, op):
        """follow single-definition copies / negations of a switch operand to the local that is really tested"""
        if op[0] not in ('c', 'm') or op[1][1]:
            return None, False
        local = op[1][0]
        neg = False
        seen = set()
        while local not in seen:
            seen.add(local)
            defs = self.defs.get(local, [])
            if len(defs) != 1 or defs[0][0] != 'stmt':
                break
            rv = defs[0][3]
            a = None
            if rv['k'] == 'un' and rv['uop'] == 'Not':
                a = self.facts.operand(rv['a'])
                flip = True
            elif rv['k'] == 'use':
                a = self.facts.operand(rv['op'])
                flip = False
            if a is None or a[0] not in ('c', 'm') or a[1][1]:
                break
            if flip:
                neg = not neg
            local = a[1][0]
        return local, neg

    def reaching_defs_from(self, local, start, seen):
        """Definitions of `local` that may reach each node of `seen` (the region explored from `start`):
        those that may reach `start` from the function entry, killed/replaced along the way."""
        defs = self.defs.get(local, [])
        if not defs:
            return None
        by_block = {}
        for i, d in enumerate(defs):
            by_block.setdefault(d[1], []).append(i)
        dblocks = set(by_block)
        sblock = start[1] if isinstance(start, tuple) else start
        init = set()
        for i, d in enumerate(defs):
            r = self.reach(self.xsucc(d[1]), avoid=lambda n: n in dblocks and n != d[1])
            if start in r or sblock in r or d[1] == sblock:
                init.add(i)
        if 1 <= local <= self.argc:
            init.add(-1)
        state = {start: set(init)}
        work = [start]
        while work:
            n = work.pop()
            cur = state[n]
            if not isinstance(n, tuple) and n in by_block:
                out = {by_block[n][-1]}
            else:
                out = cur
            for m in self.xsucc(n):
                if m not in seen:
                    continue
                old = state.get(m)
                if old is None:
                    state[m] = set(out)
                    work.append(m)
                elif not out <= old:
                    old |= out
                    work.append(m)
        return state, defs

    def refine_from(self, base_avoid, start, stop=lambda n: False):
        """Like refine, but for the region explored from an inner node `start` (e.g. one switch edge),
        using reaching definitions from that node: a flag assigned on the way kills older values."""
        dead = set()
        while True:
            def avoid(n, dead=dead):
                return base_avoid(n) or n in dead
            seen = self.reach([start], avoid=avoid, stop=stop)
            new = set()
            for bb in [n for n in seen if not isinstance(n, tuple)]:
                t = self.blocks[bb]['term']
                if t['k'] != 'switch':
                    continue
                local, neg = self._rd_chain_local(self.facts.operand(t['op']))
                if local is None or len(self.defs.get(local, [])) < 2:
                    continue
                rd = self.reaching_defs_from(local, start, seen)
                if rd is None:
                    continue
                state, defs = rd
                reach_here = state.get(bb, set())
                if bb in {d[1] for d in defs}:
                    idxs = [i for i, d in enumerate(defs) if d[1] == bb]
                    reach_here = {idxs[-1]}
                if -1 in reach_here or not reach_here:
                    continue
                os_ = set()
                for i in reach_here:
                    os_ |= self._orig_def(defs[i], {local}, None)
                ty = self.local_ty(local)
                subj = ('bool', frozenset(os_), neg) if ty == 'bool' else ('int', frozenset(os_), None)
                arms = self.succ[bb]
                listed = [lab[2] for _, lab in arms if lab[2] != 'otherwise']
                for k, (_, lab) in enumerate(arms):
                    node = ('e', bb, k)
                    if node in dead or base_avoid(node):
                        continue
                    g = Guard(self, bb, k, subj, lab[2], listed)
                    if not g.feasible_by_constants():
                        new.add(node)
            if not new:
                return avoid, seen
            dead |= new

    # ---- dominance on the expanded graph -------------------------------------------------
    def edges_required_for(self, site, start=0):
        """Switch edges (bb,k) such that every normal path from entry to `site` takes them."""
        out = []
        for (bb, k), g in self.guards.items():
            node = ('e', bb, k)
            seen = self.reach([start], avoid=lambda n, node=node: n == node, stop=lambda n: n == site)
            if site not in seen:
                out.append(g)
        return out


def strip_generics_ty(t):
    return type_head(t)


class Guard:
    """What taking one out-edge of a switch asserts."""

    def __init__(self, body, bb, k, subj, value, listed):
        self.body = body
        self.bb = bb
        self.k = k
        self.kind, self.origins, self.extra = subj
        self.value = value
        self.listed = listed

    def variants(self):
        """For enum subjects: the set of variant names this edge admits (None if unknown)."""
        if self.kind != 'enum':
            return None
        if isinstance(self.extra, tuple):  # a bool-returning variant test (is_err / is_some / ...): see _switch_subject
            _, yes, both, neg = self.extra
            if self.value == 0:
                t = False
            elif self.value == 1:
                t = True
            elif self.value == 'otherwise' and self.listed == [0]:
                t = True
            elif self.value == 'otherwise' and self.listed == [1]:
                t = False
            else:
                return None
            if neg:
                t = not t
            return frozenset([yes]) if t else frozenset(both) - {yes}
        table = self.body.facts.enum_table(self.extra)
        if table is None:
            return None
        if self.extra.endswith('ControlFlow') and self.origins and all(o.kind == 'call' and o.key in self.body.calls and not o.path for o in self.origins):
            # `x?`: Try::branch is value-preserving for ORIG, so the subject is the call that produced the Option / Result
            heads = {type_head(self.body.calls[o.key].dest_ty) for o in self.origins}
            if heads == {'std::option::Option'}:
                table = {0: 'Some', 1: 'None'}
            elif heads == {'std::result::Result'}:
                table = {0: 'Ok', 1: 'Err'}
        if self.value == 'otherwise':
            return frozenset(n for d, n in table.items() if d not in self.listed)
        n = table.get(self.value)
        return frozenset([n]) if n is not None else None

    def truth(self):
        """For bool subjects: True/False asserted about the *un-negated* subject on this edge."""
        if self.kind != 'bool':
            return None
        if self.value == 0:
            t = False
        elif self.value == 'otherwise' and self.listed == [0]:
            t = True
        elif self.value == 1:
            t = True
        elif self.value == 'otherwise' and self.listed == [1]:
            t = False
        else:
            return None
        return (not t) if self.extra else t

    def feasible_by_constants(self):
        os_ = self.origins
        if not os_:
            return True
        if self.kind == 'enum':
            if all(o.kind == 'aggr' and not o.path for o in os_):
                allowed = {self.body.blocks[o.key[0]]['stmts'][o.key[1]]['rv']['ak'].get('variant') for o in os_}
                vs = self.variants()
                return vs is None or bool(vs & allowed)
            return True
        if all(o.kind == 'const' and not o.path for o in os_):
            try:
                vals = {int(o.key) for o in os_}
            except (TypeError, ValueError):
                return True
            if self.kind == 'bool' and self.extra:
                vals = {1 - v for v in vals if v in (0, 1)} | {v for v in vals if v not in (0, 1)}
            if self.value == 'otherwise':
                return any(v not in self.listed for v in vals)
            return self.value in vals
        return True

    def subject_calls(self):
        return self.body.origin_calls(self.origins)

    def describe(self):
        subj = self.body.describe_origins(self.origins)
        if self.kind == 'enum':
            v = self.variants()
            return '%s is %s' % (subj, '|'.join(sorted(v)) if v else self.value)
        if self.kind == 'bool':
            return '%s = %s' % (subj, self.truth())
        return '%s == %s' % (subj, self.value)


class Facts:
    def __init__(self, directory):
        self.dir = directory
        self.crates = {}
        self.bodies = {}
        self.adts = {}
        self.traits = {}
        self.impls = []
        self.units = []
        for fn in sorted(glob.glob(os.path.join(directory, '*.json'))):
            with open(fn) as fh:
                d = json.load(fh)
            crate = d['crate']
            self.units.append({'crate': crate, 'features': d.get('features', []), 'is_test': d.get('is_test', False),
                               'bodies': len(d['bodies']), 'src': d.get('src', ''), 'file': os.path.basename(fn)})
            primary = crate not in self.crates and not d.get('is_test')
            if primary:
                self.crates[crate] = d
            for a in d['adts']:
                p = strip_generics(re.sub(r'\bcrate::', crate + '::', a['path']))
                a = dict(a, path=p, crate=crate)
                a['variants'] = [dict(v, fields=[dict(f, ty=norm_ty(f['ty'])) for f in v['fields']]) for v in a['variants']]
                self.adts.setdefault(p, a)
            for t in d['traits']:
                p = strip_generics(re.sub(r'\bcrate::', crate + '::', t['path']))
                self.traits.setdefault(p, dict(t, path=p, crate=crate))
            for im in d['impls']:
                im = dict(im, crate=crate, unit=os.path.basename(fn))
                for key in ('self_ty', 'trait', 'trait_ref'):
                    if key in im:
                        im[key] = re.sub(r'\bcrate::', crate + '::', im[key])
                if 'trait' in im:
                    im['trait'] = strip_generics(im['trait'])
                self.impls.append(im)
            for b in d['bodies']:
                body = Body(self, crate, b)
                body.unit = os.path.basename(fn)
                body.unit_is_test = d.get('is_test', False)
                # the lib unit wins over a test unit of the same crate
                if body.id not in self.bodies or not d.get('is_test'):
                    self.bodies[body.id] = body
        self._by_path = defaultdict(list)
        for b in self.bodies.values():
            self._by_path[b.path].append(b)
        self._children = defaultdict(list)
        for b in self.bodies.values():
            if b.parent:
                self._children[b.parent].append(b)

    # --- small decoders ---
    @staticmethod
    def place(p):
        proj = []
        for e in p['p']:
            if isinstance(e, str):
                proj.append(e)
            elif 'f' in e:
                proj.append(('f', e['f'], e['n'], e.get('a', '')))
            elif 'd' in e:
                proj.append(('d', e['d']))
            elif 'ix' in e:
                proj.append(('ix', e['ix']))
            else:
                proj.append('?')
        return (p['l'], tuple(proj))

    @staticmethod
    def operand(o):
        if 'c' in o:
            return ('c', Facts.place(o['c']))
        if 'm' in o:
            return ('m', Facts.place(o['m']))
        if 'k' in o:
            return ('k', o['k'])
        return ('o', o.get('o'))

    # --- lookup ---
    def body_by_path(self, path, unique=True):
        bs = self._by_path.get(path, [])
        if unique:
            if len(bs) != 1:
                return None
            return bs[0]
        return bs

    def bodies_where(self, pred):
        return [b for b in self.bodies.values() if pred(b)]

    def closures_of(self, body):
        """All closure bodies lexically inside `body` (transitively)."""
        out = []
        stack = [body.id]
        while stack:
            i = stack.pop()
            for c in self._children.get(i, []):
                out.append(c)
                stack.append(c.id)
        return out

    def with_closures(self, body):
        return [body] + self.closures_of(body)

    def enum_table(self, ty_head):
        if ty_head in BUILTIN_ENUMS:
            return BUILTIN_ENUMS[ty_head]
        for k, v in BUILTIN_ENUMS.items():
            if ty_head.endswith(k.split('::')[-1]) and k.split('::')[-1] in ('Option', 'Result', 'ControlFlow', 'Ordering'):
                if ty_head.split('::')[-1] == k.split('::')[-1] and ty_head.split('::')[0] in ('std', 'core'):
                    return v
        a = self.adts.get(ty_head)
        if a and a['kind'] == 'enum':
            return {v['idx']: v['name'] for v in a['variants']}
        return None

    def callee_body(self, call):
        """The local body a call resolves to (exactly), or None."""
        if call.resolved_id and call.resolved_id in self.bodies:
            return self.bodies[call.resolved_id]
        if call.callee_id and call.callee_id in self.bodies and not call.trait:
            return self.bodies[call.callee_id]
        return None

    def callee_candidates(self, call):
        """Local bodies a call may dispatch to (exact target, or all impls of the trait method)."""
        b = self.callee_body(call)
        if b:
            return [b]
        if call.trait:
            tr = strip_generics(call.trait)
            return [x for x in self.bodies.values() if x.impl_trait == tr and x.name == call.name and x.kind == 'AssocFn']
        return []

    def accessor_summary(self, call, depth=0):
        """A local function whose whole body is `&self.field` (or a copy of it) is a projection:
        returns (argument index, path) or None."""
        cb = self.callee_body(call)
        if cb is None:
            # a method of a crate-local trait called on a type parameter (`dst.as_node()` with `dst: &impl GraphNode`): a projection if every
            # implementation is the same projection
            if call.trait and call.local and depth == 0:
                cands = self.callee_candidates(call)
                if cands:
                    sums = {self._accessor_of_body(x) for x in cands}
                    if len(sums) == 1 and None not in sums:
                        return next(iter(sums))
            return None
        return self._accessor_of_body(cb)

    def _accessor_of_body(self, cb):
        if not hasattr(self, '_acc'):
            self._acc = {}
        if cb.id in self._acc:
            return self._acc[cb.id]
        res = None
        normal = [i for i, b in enumerate(cb.blocks) if not b['cleanup']]
        if len(normal) == 1 and cb.blocks[normal[0]]['term']['k'] == 'return' and not cb.calls:
            os_ = cb.orig_local(0)
            if len(os_) == 1:
                o = next(iter(os_))
                if o.kind == 'arg' and o.path and all(p[0] == 'f' for p in o.path):
                    res = (o.key - 1, o.path)
        self._acc[cb.id] = res
        return res

    def stats(self):
        nb = len(self.bodies)
        nblocks = sum(b.nblocks for b in self.bodies.values())
        ncalls = sum(len(b.calls) for b in self.bodies.values())
        return {'bodies': nb, 'blocks': nblocks, 'call_sites': ncalls, 'units': self.units}


# --------------------------------------------------------------------------------------------
# keyed must-events with callee summaries


class Event:
    """A kind of event: `match(body, bb)` returns a key (hashable; usually a tuple of origin sets
    expressed relative to `body`) if block bb's terminator (a call) or one of its statements is such
    an event, else None. With summaries=True a call to a local function counts as the event when the
    callee must perform it on every normal path to its return; keys that mention callee parameters
    are translated to the caller's argument origins."""

    def __init__(self, name, match, summaries=True):
        self.name = name
        self.match = match
        self.summaries = summaries
        self._sum = {}

    def keys_at(self, body, bb, depth=0):
        """Set of keys of this event that certainly happen when block bb is executed to its end."""
        out = set()
        k = self.match(body, bb)
        if k is not None:
            out.add(k)
        if self.summaries and depth < 6:
            c = body.call_at(bb)
            if c is not None:
                cb = body.facts.callee_body(c)
                if cb is not None and cb.id != body.id:
                    for key in self.summary(cb, depth + 1):
                        tk = translate_key(key, cb, body, c)
                        if tk is not None:
                            out.add(tk)
        return out

    def summary(self, body, depth=0):
        """Keys that must occur on every normal path entry -> return of `body`."""
        if body.id in self._sum:
            return self._sum[body.id]
        self._sum[body.id] = set()  # recursion guard (conservative: nothing guaranteed)
        per_block = {}
        allkeys = set()
        for bb in range(body.nblocks):
            if body.blocks[bb]['cleanup']:
                continue
            ks = self.keys_at(body, bb, depth)
            if ks:
                per_block[bb] = ks
                allkeys |= ks
        must = set()
        rets = body.returns()
        for key in allkeys:
            blocks = {bb for bb, ks in per_block.items() if key in ks}
            seen = body.reach([0], avoid=lambda n: n in blocks)
            if not any(r in seen for r in rets):
                must.add(key)
        self._sum[body.id] = must
        return must

    def blocks_with(self, body, keypred=lambda k: True):
        out = set()
        for bb in range(body.nblocks):
            if body.blocks[bb]['cleanup']:
                continue
            for k in self.keys_at(body, bb):
                if keypred(k):
                    out.add(bb)
                    break
        return out


def translate_key(key, callee, caller, call):
    """Rewrite a key made of origin-sets relative to `callee` into caller terms: an ('arg', i, path)
    origin becomes the origins of the i-th argument at `call` with `path` appended. Components that
    are not origin sets are kept. Returns None if a component cannot be translated (callee-local)."""
    if not isinstance(key, tuple):
        return key
    out = []
    for comp in key:
        if isinstance(comp, frozenset) and comp and all(isinstance(o, Origin) for o in comp):
            acc = set()
            for o in comp:
                if o.kind == 'arg':
                    idx = o.key - 1
                    if call.qname in CLOSURE_CALLS and callee.kind == 'Closure':
                        # closure bodies take (env, a, b, ..); the caller passes (closure, (a, b, ..))
                        if idx == 0:
                            base = caller.orig_operand(call.args[0])
                        else:
                            tup = caller.orig_operand(call.args[1]) if len(call.args) > 1 else frozenset()
                            base = set()
                            for t in tup:
                                base |= caller._project(t, [('f', idx - 1, str(idx - 1), 'tuple')], None)
                    else:
                        if idx >= len(call.args):
                            return None
                        base = caller.orig_operand(call.args[idx])
                    for b in base:
                        acc.add(Origin(b.kind, b.key, b.path + o.path))
                elif o.kind == 'const':
                    acc.add(o)
                else:
                    return None
            out.append(frozenset(acc))
        else:
            out.append(comp)
    return tuple(out)


def same_origin(a, b):
    """Two origin sets denote the same single value (must-alias by provenance)."""
    return len(a) == 1 and a == b


def origins_overlap(a, b):
    return bool(set(a) & set(b))


def path_names(o):
    return tuple(p[1] for p in o.path if isinstance(p, tuple))
