"""Rule groups for the build algorithms: STORE internals, top-down validation (C01 C02 C09 C18),
bottom-up scheduling and the queue (C03 C04 C18)."""
from core import Event, Origin, strip_generics, type_head, CLOSURE_CALLS
from roles import DAG, split_generic_args
from rules_protocol import (ev_call_to, guard_edges_on_call, refined_infeasible, reaches_exec, T_EXEC, TRACKER)

VERDICT_TD_TASK = 'pie::context::top_down::TopDownCheckObj::is_consistent'
VERDICT_TD_RES = 'pie::dependency::ResourceDependencyObj::is_consistent_top_down'
VERDICT_BU_RES = 'pie::dependency::ResourceDependencyObj::is_consistent_bottom_up'
VERDICT_BU_TASK = 'pie::dependency::TaskDependencyObj::is_consistent_bottom_up'
ORDER_PRESERVING = {
    'std::iter::Iterator::map', 'std::iter::Iterator::collect', 'core::slice::iter', 'std::iter::IntoIterator::into_iter',
    'std::iter::Iterator::cloned', 'std::iter::Iterator::copied', 'std::vec::Vec::into_iter', 'std::ops::Deref::deref',
    'std::iter::Iterator::enumerate', 'std::vec::Vec::iter', 'std::iter::Iterator::filter', 'std::iter::Iterator::filter_map',
    'std::iter::Iterator::by_ref', 'std::boxed::Box::iter', 'std::iter::Iterator::peekable',
}


def reach_from(ctx, body, start, extra_avoid=None, stop=None):
    """Region reachable from an inner node with constant/flag pruning by reaching definitions."""
    base = ctx.infeasible(body)
    if extra_avoid is not None:
        base = ctx.both(base, extra_avoid)
    _, seen = body.refine_from(base, start, stop=stop or (lambda n: False))
    return seen


def is_callee(ctx, call, body):
    cb = ctx.F.callee_body(call)
    return cb is not None and body is not None and cb.id == body.id


def ancestors(body, origins, depth=8):
    """Transitive closure of call origins through the arguments of those calls (derivation chain)."""
    seen = {}
    work = [o for o in origins]
    while work and depth > 0:
        nxt = []
        for o in work:
            if o.kind != 'call' or o.key in seen:
                continue
            c = body.calls.get(o.key)
            if c is None:
                continue
            seen[o.key] = c
            for a in c.args:
                nxt.extend(body.orig_operand(a))
        work = nxt
        depth -= 1
    return seen


# ================================================================================================
# STORE internals
# ================================================================================================

def rule_store(ctx):
    R, roles, F = ctx.R, ctx.roles, ctx.F
    # reset = output := None  and  remove_outgoing_edges_of_node(node), same node, on every path
    b = roles.reset
    if b is None:
        R.missing('STORE-reset', 'reset', 'no store method calls DAG::remove_outgoing_edges_of_node', props=('C01', 'C06', 'C08'))
    else:
        inf = ctx.infeasible(b)
        rm = b.find_calls(lambda c: c.qname == DAG + 'remove_outgoing_edges_of_node')
        rm_ok = [c for c in rm if {o.kind for o in b.orig_operand(c.args[1])} == {'arg'} and all(o.key == 2 for o in b.orig_operand(c.args[1]))]
        w = b.must_after(0, ctx.both(inf, lambda n: n in {c.bb for c in rm_ok})) if b.nblocks else None
        seen = b.reach([0], avoid=ctx.both(inf, lambda n: n in {c.bb for c in rm_ok}))
        escapes = [r for r in b.returns() if r in seen]
        R.ob('STORE-reset-edges', b.path, not escapes and bool(rm_ok), 'reset removes all outgoing edges of the node it was given, on every path' if not escapes and rm_ok
             else 'reset can return without removing the outgoing edges of its node', ctx.where(b), props=('C06', 'C08', 'C01', 'C02', 'C09', 'C19', 'C20'))
        clears = set()
        for (bb, si, place, rv, ln) in b.stores:
            po = b.orig_place(place)
            if any(('f', 'output') in o.path for o in po) and rv['k'] == 'use':
                vo = b.orig_operand(F.operand(rv['op']))
                if all(o.kind == 'aggr' for o in vo) and vo:
                    names = {b.blocks[o.key[0]]['stmts'][o.key[1]]['rv']['ak'].get('variant') for o in vo}
                    nodes_ok = all(all(x.kind == 'arg' and x.key == 2 for x in b.orig_operand(b.calls[o.key].args[1])) for o in po if o.kind == 'call' and o.key in b.calls)
                    if names == {'None'} and nodes_ok:
                        clears.add(bb)
        seen = b.reach([0], avoid=ctx.both(inf, lambda n: n in clears))
        escapes = [r for r in b.returns() if r in seen]
        R.ob('STORE-reset-output', b.path, not escapes and bool(clears), 'reset drops the cached output of the node it was given, on every path' if not escapes and clears
             else 'reset can return without dropping the cached output', ctx.where(b), props=('C01', 'C19', 'C08', 'C09', 'C02'))
    # argument order of the reachability / order queries
    for role, dagfn, props in (('trans_req', DAG + 'contains_transitive_edge', ('C05', 'C04', 'C03')), ('topo_cmp', DAG + 'topo_cmp', ('C04',))):
        b = getattr(roles, role)
        if b is None:
            R.missing('STORE-' + role, role, 'no store method calls ' + dagfn, props=props)
            continue
        cs = b.find_calls(lambda c: c.qname == dagfn)
        good = len(cs) == 1 and [sorted((o.kind, o.key) for o in b.orig_operand(a)) for a in cs[0].args[1:3]] == [[('arg', 2)], [('arg', 3)]]
        R.ob('STORE-' + role + '-args', b.path, good, '%s(a, b) asks the graph about (a, b) in that order' % b.name if good
             else '%s does not pass its two nodes to %s in parameter order' % (b.name, dagfn), ctx.where(b), props=props)
        ret = b.orig_local(0)
        good = len(ret) == 1 and all(o.kind == 'call' and b.calls[o.key].qname == dagfn for o in ret)
        R.ob('STORE-' + role + '-ret', b.path, good, 'the answer of the graph is returned unchanged' if good else 'the returned value is not the graph\'s answer: %s' % b.describe_origins(ret),
             ctx.where(b), props=props)
    # add_dependency: argument order and Err(CycleDetected) => Err
    b = roles.add_dep
    if b is None:
        R.missing('STORE-add', 'add_dep', 'no store method calls DAG::add_edge', props=('C07', 'C08'))
    else:
        cs = b.find_calls(lambda c: c.qname == DAG + 'add_edge')
        good = len(cs) == 1 and [sorted((o.kind, o.key) for o in b.orig_operand(a)) for a in cs[0].args[1:4]] == [[('arg', 2)], [('arg', 3)], [('arg', 4)]]
        R.ob('STORE-add-args', b.path, good, 'add_dependency(src, dst, d) adds the edge src -> dst carrying d' if good else 'add_dependency does not pass (src, dst, data) in order',
             ctx.where(b), props=('C08', 'C07', 'C05'))
        if cs:
            e = cs[0]

            def avoid(n):
                if isinstance(n, tuple):
                    g = b.guard_of(n[1], n[2])
                    if g is not None and g.kind == 'enum' and g.origins and all(o.kind == 'call' and o.key == e.bb for o in g.origins):
                        vs = g.variants()
                        if vs is None:
                            return False
                        paths = {tuple(o.path) for o in g.origins}
                        if paths == {()}:
                            return not (vs & {'Err', 'Break'})
                        return 'CycleDetected' not in vs
                return False
            seen = b.reach([0], avoid=ctx.both(ctx.infeasible(b), avoid))
            kinds = set()

            def kinds_of(local, depth=0):
                for d in b.defs.get(local, []):
                    if d[1] in seen:
                        if d[0] == 'stmt' and d[3]['k'] == 'aggr':
                            kinds.add(d[3]['ak'].get('variant'))
                        elif d[0] == 'call' and d[2].qname == 'std::ops::FromResidual::from_residual':
                            kinds.add('Err')
                        elif d[0] == 'stmt' and d[3]['k'] == 'use' and depth < 4 and F.operand(d[3]['op'])[0] in ('c', 'm') and not F.operand(d[3]['op'])[1][1]:
                            kinds_of(F.operand(d[3]['op'])[1][0], depth + 1)  # a moved result (e.g. the value a helper returned)
                        else:
                            kinds.add('?')
            kinds_of(0)
            good = kinds == {'Err'}
            if not good:
                # decide it by evaluation instead of shape: with the graph answering Err(CycleDetected), does add_dependency return an Err?
                # (covers `.map(..).map_err(|e| match e { .. })`, a match on the error behind let-else, helper shims, ...)
                try:
                    import absint
                    cyc = ('res', 'Err', ('adt', 'pie_graph::Error', 'CycleDetected', (), next((v['idx'] for v in (F.adts.get('pie_graph::Error') or {}).get('variants', []) if v['name'] == 'CycleDetected'), 1)))

                    def world(answer):
                        def extern(call, argv):
                            if call.qname == DAG + 'add_edge':
                                return answer
                            return None
                        return extern
                    args_ = [('atom', 'store'), ('atom', 'src'), ('atom', 'dst'), ('atom', 'dep')][:b.argc]
                    r1 = absint.evaluate(F, b, args_, extern=world(cyc))
                    r2 = absint.evaluate(F, b, args_, extern=world(('res', 'Ok', ('bool', True))))
                    r3 = absint.evaluate(F, b, args_, extern=world(('res', 'Ok', ('bool', False))))
                    if r1[0] == 'res' and r1[1] == 'Err' and r2[0] == 'res' and r2[1] == 'Ok' and r3[0] == 'res' and r3[1] == 'Ok':
                        good, kinds = True, {'Err'}
                except Exception:
                    pass
            R.ob('STORE-add-cycle', b.path, good, 'a cycle reported by the graph is returned as an error' if good
                 else 'when the graph reports CycleDetected, add_dependency can return %s' % sorted(kinds), ctx.where(b, e.bb), props=('C07',))
    # ignored results of add_dependency: only resource edges (destination is a resource node => never a cycle)
    n = 0
    for body in F.bodies.values():
        if body.crate != 'pie' or body.is_test_code():
            continue
        for c in body.find_calls(lambda c: is_callee(ctx, c, roles.add_dep)):
            used = any(c.bb in ctx.base_call_bbs(g.origins) for g in body.guards.values())
            if used:
                continue
            n += 1
            dst_ty = _arg_ty(body, c, 2) or (c.gargs[1] if len(c.gargs) > 1 else '')
            good = roles.resource_node is not None and roles.resource_node in dst_ty
            R.ob('STORE-add-ignored', body.path + '#' + '/'.join(sorted(ctx.dep_variants(body, c.args[3]))), good,
                 'the ignored Result is for an edge to a resource node, which has no outgoing edges and cannot close a cycle' if good
                 else 'the Result of add_dependency is ignored for a destination of type %s: a cycle error would be dropped' % dst_ty, ctx.where(body, c.bb), props=('C07', 'C18'))
    # every source of add_dependency / get_dependency_mut is a task node (resource nodes never get outgoing edges)
    for body in F.bodies.values():
        if body.crate != 'pie' or body.is_test_code():
            continue
        for c in body.find_calls(lambda c: is_callee(ctx, c, roles.add_dep) or is_callee(ctx, c, roles.dep_mut)):
            src_ty = _arg_ty(body, c, 1) or (c.gargs[0] if c.gargs else '')
            good = roles.task_node is not None and roles.task_node in src_ty
            R.ob('STORE-edge-source', body.path + '#' + c.name, good, 'edge sources are task nodes' if good else 'edge source has type %s' % src_ty, ctx.where(body, c.bb), props=('C07', 'C08'))
    # who-may-remove: graph edge/node removal only through reset
    for body in F.bodies.values():
        if body.crate != 'pie' or body.is_test_code():
            continue
        for c in body.find_calls(lambda c: c.qname in (DAG + 'remove_edge', DAG + 'remove_node', DAG + 'remove_outgoing_edges_of_node')):
            good = roles.reset is not None and body.id == roles.reset.id
            R.ob('STORE-who-removes', body.path + '#' + c.name, good, 'recorded dependencies are only removed by reset' if good
                 else '%s removes graph edges/nodes outside reset' % body.path, ctx.where(body, c.bb), props=('C08', 'C20'))
    # who-may-add
    for body in F.bodies.values():
        if body.crate != 'pie' or body.is_test_code():
            continue
        for c in body.find_calls(lambda c: c.qname == DAG + 'add_edge'):
            good = roles.add_dep is not None and body.id == roles.add_dep.id
            R.ob('STORE-who-adds', body.path, good, 'edges enter the graph only through add_dependency' if good else 'DAG::add_edge called outside add_dependency', ctx.where(body, c.bb), props=('C08',))
    # dependencies-from reads outgoing edge data of its node parameter
    dq = [q for q in roles.queries.values() if q['dir'] == 'out' and q['what'] == 'data']
    good = len(dq) == 1 and dq[0]['variants'] == 'all' and dq[0]['node_from_param'] == [2]
    R.ob('STORE-deps-from', dq[0]['body'].path if dq else 'deps_from', good, 'dependencies-from(task) yields the data of all outgoing edges of that task' if good
         else 'no unfiltered outgoing-edge-data query of the node parameter found', ctx.where(dq[0]['body']) if dq else '', props=('C01', 'C02', 'C08'))
    roles.deps_from = dq[0]['body'] if len(dq) == 1 else None


# ================================================================================================
# verdict handling (shared by top-down check and bottom-up scheduling)
# ================================================================================================

def verdict_guards(ctx, body, vcalls):
    """Switch edges that test a verdict: returns dict node -> 'neg-err' | 'neg-false' | 'pos' | 'other'."""
    vb = {c.bb for c in vcalls}
    out = {}
    for (bb, k), g in body.guards.items():
        if not any(o.kind == 'call' and o.key in vb for o in g.origins):
            continue
        node = ('e', bb, k)
        if g.kind == 'enum':
            vs = g.variants()
            if vs is None:
                out[node] = 'other'
            elif len(vs) == 0:
                continue
            elif vs <= {'Err', 'Break'}:
                out[node] = 'neg-err'
            elif vs <= {'Ok', 'Continue'}:
                out[node] = 'pos-ok'
            else:
                out[node] = 'other'
        elif g.kind == 'bool':
            out[node] = 'pos' if g.truth() else 'neg-false'
        else:  # int switch on a bool payload
            if g.value == 0:
                out[node] = 'neg-false'
            elif g.value == 'otherwise' and g.listed == [0]:
                out[node] = 'pos'
            elif g.value == 1:
                out[node] = 'pos'
            else:
                out[node] = 'other'
    # folds: `let c = verdict.unwrap_or_else(|e| { record(e); false })` / `.unwrap_or(false)`: the Ok payload, or a constant for Err
    for c in body.calls.values():
        if body.blocks[c.bb]['cleanup'] or c.name not in ('unwrap_or_else', 'unwrap_or', 'unwrap_or_default') or 'Result' not in (c.impl_self or ''):
            continue
        if not c.args or not (vb & {o.key for o in body.orig_operand(c.args[0]) if o.kind == 'call'}):
            continue
        errv = None
        if c.name == 'unwrap_or_default':
            errv = False
        elif c.name == 'unwrap_or' and c.args[1][0] == 'k':
            errv = c.args[1][1].get('int') == '1'
        elif c.name == 'unwrap_or_else':
            for o in body.orig_operand(c.args[1]):
                if o.kind == 'aggr':
                    cid = body.blocks[o.key[0]]['stmts'][o.key[1]]['rv']['ak'].get('closure')
                    cb = body.facts.bodies.get(cid)
                    if cb is not None:
                        vals = {q.key for q in cb.orig_local(0) if q.kind == 'const'}
                        if len(vals) == 1 and len(cb.orig_local(0)) == 1:
                            errv = next(iter(vals)) == '1'
        if errv is None:
            continue
        folds = getattr(body, '_verdict_folds', {})
        folds[c.bb] = errv
        body._verdict_folds = folds
        # guards directly on the folded value
        for (bb, k), g in body.guards.items():
            if g.kind == 'bool' and g.origins and all(o.kind == 'call' and o.key == c.bb for o in g.origins):
                t = g.truth()
                if t is True:
                    out[('e', bb, k)] = 'pos' if not errv else 'other'   # true: Ok(true) [or a failed check folded to `true`: not a clean positive]
                elif t is False:
                    out[('e', bb, k)] = 'neg-false' if not errv else 'neg-false'
    # flags: a bool local assigned in the verdict arms (`let ok = match v { Ok(b) => b, Err(e) => { ..; false } }`, `Ok(c) => !c`)
    for bb, blk in enumerate(body.blocks):
        t = blk['term']
        if blk['cleanup'] or t['k'] != 'switch':
            continue
        local, neg = body._rd_chain_local(body.facts.operand(t['op']))
        if local is None or len(body.defs.get(local, [])) < 2 or body.local_ty(local) != 'bool':
            continue
        contrib = []  # per definition: ('const', value, class of its block) | ('payload', inverted?)
        ok = True
        for d in body.defs[local]:
            if d[0] != 'stmt':
                ok = False
                break
            rv = d[3]
            inv = False
            src = None
            if rv['k'] == 'use' and 'k' in rv['op']:
                v = rv['op']['k'].get('int')
                req = [out.get(('e', g.bb, g.k)) for g in body.edges_required_for(d[1])]
                cls = 'neg' if any(c and c.startswith('neg') for c in req) else ('pos' if any(c == 'pos' for c in req) else None)
                contrib.append(('const', v == '1', cls))
                continue
            if rv['k'] == 'use':
                src = body.facts.operand(rv['op'])
            elif rv['k'] == 'un' and rv['uop'] == 'Not':
                src = body.facts.operand(rv['a'])
                inv = True
            if src is None:
                ok = False
                break
            so = body.orig_operand(src)
            if so and all(o.kind == 'call' and o.key in vb for o in so):
                contrib.append(('payload', inv, None))
            else:
                ok = False
                break
        if not ok or not any(c[0] == 'payload' for c in contrib):
            continue
        arms = body.succ[bb]
        listed = [lab[2] for _, lab in arms if lab[2] != 'otherwise']
        for k, (_, lab) in enumerate(arms):
            v = lab[2]
            if v == 0 or (v == 'otherwise' and listed == [1]):
                edge_truth = False
            elif v == 1 or (v == 'otherwise' and listed == [0]):
                edge_truth = True
            else:
                continue
            flag_val = (not edge_truth) if neg else edge_truth
            classes = set()
            for c in contrib:
                if c[0] == 'const':
                    if c[1] == flag_val:
                        classes.add(c[2])
                else:
                    payload = (not flag_val) if c[1] else flag_val  # value of the verdict payload (true = consistent)
                    classes.add('pos' if payload else 'neg')
            if len(classes) == 1 and None not in classes:
                out[('e', bb, k)] = 'neg-false' if classes == {'neg'} else 'pos'
    return out


# ================================================================================================
# top-down: make-consistent and check (C01 C02 C09 C18 C19)
# ================================================================================================

def rule_topdown(ctx):
    R, roles, F = ctx.R, ctx.roles, ctx.F
    P = ('C01', 'C02')
    td = [(b, xs) for b, xs in roles.exec_sites if 'TopDownContext' in (b.impl_self or '')]
    if len(td) != 1:
        R.missing('TD', 'td_make', 'expected one top-down execution site, found %d' % len(td), props=P + ('C18', 'C19'))
        return
    mk, xs = td[0]
    x = xs[0]
    inf = ctx.infeasible(mk)
    key = mk.path
    # guards required for the execution
    req = mk.edges_required_for(x.bb)
    cons_false = [g for g in req if g.kind == 'bool' and g.truth() is False and any(c.qname == 'std::collections::HashSet::contains' and ctx.has_field(mk.orig_operand(c.args[0]), roles.f_consistent) for c in g.subject_calls())]
    chk_none = [g for g in req if g.kind == 'enum' and g.variants() == frozenset(['None']) and g.subject_calls()]
    R.ob('TD-exec-guards', key, bool(cons_false) and bool(chk_none), 'a task is executed only if it is not yet consistent in this session and its check reports no reusable output' if cons_false and chk_none
         else 'execution is not guarded by both the per-session memo and the dependency check (memo guard: %s, check guard: %s)' % (bool(cons_false), bool(chk_none)),
         ctx.where(mk, x.bb), props=('C02', 'C01'))
    if not chk_none:
        return
    ccall = chk_none[0].subject_calls()[0]
    chk = F.callee_body(ccall)
    roles.td_make, roles.td_check = mk, chk
    roles.note('td_make', mk.path)
    roles.note('td_check', chk.path if chk else None)
    node_o = mk.orig_operand(ccall.args[1])
    gcs = [mk.calls[o.key] for o in node_o if o.kind == 'call' and o.key in mk.calls]
    good = len(gcs) == 1 and roles.get_or_create_task is not None and F.callee_body(gcs[0]) is not None and F.callee_body(gcs[0]).id == roles.get_or_create_task.id and \
        all(o.kind == 'arg' and o.key == 2 for o in mk.orig_operand(gcs[0].args[1])) and bool(mk.orig_operand(gcs[0].args[1]))
    R.ob('TD-node', key, good, 'the node checked / executed / memoised is the node of the task that was given' if good else 'the node is not looked up with the given task', ctx.where(mk), props=('C01', 'C15'))
    # (a) every exit that does not execute is a guarded reuse
    cont_true = set()
    chk_some = set()
    for (bb, k), g in mk.guards.items():
        if g.kind == 'bool' and g.truth() is True and any(c.qname == 'std::collections::HashSet::contains' and ctx.has_field(mk.orig_operand(c.args[0]), roles.f_consistent) for c in g.subject_calls()):
            cont_true.add(('e', bb, k))
        if g.kind == 'enum' and g.variants() == frozenset(['Some']) and ccall.bb in ctx.base_call_bbs(g.origins):
            chk_some.add(('e', bb, k))
    seen = mk.reach([0], avoid=ctx.both(inf, lambda n: n == x.bb or n in cont_true or n in chk_some))
    esc = [r for r in mk.returns() if r in seen]
    R.ob('TD-reuse-guarded', key, not esc, 'every return that did not execute the task is guarded by the memo or by a successful dependency check' if not esc
         else 'make-consistent can return without executing and without a successful check:\n' + mk.fmt_path(mk.witness(seen, esc[0])), ctx.where(mk), props=('C01',))
    # the reused value is the cached output of the same node
    for e in cont_true:
        s2 = mk.reach([e], avoid=inf)
        outs = [c for c in mk.find_calls(lambda c: is_callee(ctx, c, roles.get_out)) if c.bb in s2]
        good = bool(outs) and all(mk.orig_operand(c.args[1]) == node_o for c in outs)
        R.ob('TD-memo-same-node', key, good, 'the memoised branch returns the cached output of the node that was tested' if good else 'memoised branch reads the output of a different node',
             ctx.where(mk), props=('C01', 'C02'))
    # memo: insert after check/execute on all paths, same node; never before the check
    ins = [c for c in mk.find_calls(lambda c: c.qname == 'std::collections::HashSet::insert' and ctx.has_field(mk.orig_operand(c.args[0]), roles.f_consistent))]
    ins_ok = {c.bb for c in ins if mk.orig_operand(c.args[1]) == node_o or mk.orig_operand(c.args[1]) == frozenset(Origin(o.kind, o.key, ()) for o in node_o)}
    w = mk.must_after(ccall.bb, ctx.both(inf, lambda n: n in ins_ok))
    R.ob('TD-memo-insert', key, w is None, 'the task is marked consistent for the session after its check / execution on every normal path' if w is None
         else 'a normal path returns without marking the task consistent:\n' + mk.fmt_path(w), ctx.where(mk, ccall.bb), props=('C02',))
    early = [c for c in ins if ccall.bb in mk.reach([c.bb], avoid=inf) or x.bb in mk.reach([c.bb], avoid=inf)]
    R.ob('TD-memo-not-early', key, not early, 'the task is not marked consistent before it has been checked / executed' if not early
         else 'the task is marked consistent before its check or execution (a nested require would reuse a stale output)', ctx.where(mk, early[0].bb) if early else ctx.where(mk), props=('C02', 'C01'))
    if chk is None:
        R.missing('TD', 'td_check', 'the check function is not a local body', props=P)
        return
    _rule_td_check(ctx, chk)


def _rule_td_check(ctx, chk):
    R, roles, F = ctx.R, ctx.roles, ctx.F
    key = chk.path
    inf = ctx.infeasible(chk)
    vcalls = chk.find_calls(lambda c: c.qname in (VERDICT_TD_TASK, VERDICT_TD_RES))
    R.floor('TD-check', 'consistency-check calls in the top-down check', len(vcalls), 2, props=('C01', 'C09', 'C18'))
    vg = verdict_guards(ctx, chk, vcalls)
    neg = {n for n, k in vg.items() if k.startswith('neg')}
    # the dependency loop: `next` over something derived from dependencies-from(src)
    nexts = []
    for n in chk.find_calls(lambda c: c.qname == 'std::iter::Iterator::next'):
        anc = ancestors(chk, chk.orig_operand(n.args[0]))
        q = [c for c in anc.values() if roles.deps_from is not None and is_callee(ctx, c, roles.deps_from)]
        if q:
            nexts.append((n, q[0], anc))
    if len(nexts) != 1:
        R.undecided('TD-check-loop', key, 'cannot find the loop over the dependencies of the checked task (%d candidates)' % len(nexts), ctx.where(chk), props=('C01', 'C02'))
        return
    nx, q, anc = nexts[0]
    src_o = chk.orig_operand(q.args[1])
    good = all(o.kind == 'arg' for o in src_o) and len(src_o) == 1
    R.ob('TD-check-src', key, good, 'the dependencies validated are those of the task being checked' if good else 'dependencies of %s are validated instead' % chk.describe_origins(src_o),
         ctx.where(chk, q.bb), props=('C01',))
    # order-preserving chain between the query and the loop (creation order, C02)
    bad = [c for c in anc.values() if c.bb != q.bb and c.qname not in ORDER_PRESERVING and not c.qname.endswith('::next')]
    coll = [c for c in anc.values() if c.qname == 'std::iter::Iterator::collect']
    bad_coll = [c for c in coll if not (len(c.gargs) > 1 and (c.gargs[1].startswith('std::boxed::Box<[') or c.gargs[1].startswith('std::vec::Vec<')))]
    R.ob('TD-check-order', key, not bad and not bad_coll, 'dependencies are validated in the order the store yields them (creation order)' if not bad and not bad_coll
         else 'the dependency list passes through %s before validation' % sorted({c.qname for c in bad} | {('collect into ' + c.gargs[1]) for c in bad_coll}), ctx.where(chk, nx.bb), props=('C02', 'C16'))
    some_edges = [n for n, g in guard_edges_on_call(chk, nx) if g.variants() == frozenset(['Some'])]
    none_edges = [n for n, g in guard_edges_on_call(chk, nx) if g.variants() == frozenset(['None'])]
    dep_table = F.enum_table(roles.dep_enum) or {}
    # every real dependency variant reaches a consistency check of *that* dependency
    vb = {c.bb for c in vcalls}
    for v in dep_table.values():
        def avoid_v(n, v=v):
            if isinstance(n, tuple):
                g = chk.guard_of(n[1], n[2])
                if g is not None and g.kind == 'enum' and g.extra == roles.dep_enum and nx.bb in ctx.base_call_bbs(g.origins):
                    vs = g.variants()
                    return vs is not None and v not in vs
            return False
        reached_loop = False
        refined = refined_infeasible(ctx, chk, extra=avoid_v)
        for e in some_edges:
            seen = chk.reach([e], avoid=ctx.both(refined, lambda n: n in vb or n in neg))
            if nx.bb in seen or any(b in seen for b in _nonnone_exit_blocks(chk)):
                reached_loop = True
        if v == 'ReservedRequire':
            # the transient variant: must not be treated as consistent (C19: and must not diverge)
            R.ob('TD-check-variant', key + '#' + v, not reached_loop, 'a leftover reserved dependency is never treated as consistent' if not reached_loop
                 else 'a reserved (unfinished) require dependency is skipped as if it were consistent', ctx.where(chk, nx.bb), props=('C01', 'C19'))
        else:
            R.ob('TD-check-variant', key + '#' + v, not reached_loop, '%s dependencies are re-validated by a consistency check' % v if not reached_loop
                 else 'a %s dependency can be passed over without any consistency check (treated as consistent)' % v, ctx.where(chk, nx.bb), props=('C01', 'C08', 'C09'))
    for c in vcalls:
        ro = chk.orig_operand(c.args[0])
        good = ctx.base_call_bbs(ro) == {nx.bb}
        R.ob('TD-check-receiver', key + '#' + c.name, good, 'the consistency check is asked of the dependency under iteration' if good else 'check receiver: %s' % chk.describe_origins(ro),
             ctx.where(chk, c.bb), props=('C01', 'C09'))
    # every verdict is branched on before the next dependency is looked at (directly, or through a flag it was folded into): a verdict that
    # is only accumulated (`all_ok &= d.is_consistent(..)`) lets the validation run on after an inconsistent dependency
    vedges = set(vg)
    for c in vcalls:
        seen_ = chk.reach(chk.xsucc(c.bb), avoid=ctx.both(inf, lambda n: n in vedges), stop=lambda n: n == nx.bb)
        tested = nx.bb not in seen_
        R.ob('TD-check-verdict-tested', key + '#' + c.name, tested, 'the verdict is branched on before the next dependency is validated' if tested
             else 'the next dependency is validated without the verdict of this one having been branched on (validation does not stop at the first inconsistent dependency)',
             ctx.where(chk, c.bb), props=('C01', 'C02', 'C20'))
    # negative verdict => no further iteration, no reuse (early exit; C01 C02 C18)
    nonnone = _nonnone_exit_blocks(chk)
    for e in sorted(neg):
        seen = reach_from(ctx, chk, e, stop=lambda n: n == nx.bb)
        again = nx.bb in seen
        reuse = [b for b in nonnone if b in seen]
        g = chk.guard_of(e[1], e[2])
        what = 'a checker error' if vg[e] == 'neg-err' else 'an inconsistent dependency'
        R.ob('TD-check-neg-exit', key + '#%s' % vg[e], not again and not reuse, '%s ends the validation at once and the cached output is not reused' % what if not again and not reuse
             else 'after %s the check %s' % (what, 'continues with the next dependency' if again else 'can still return the cached output'), ctx.where(chk, e[1]),
             props=('C01', 'C02', 'C18') if vg[e] == 'neg-err' else ('C01', 'C02', 'C09'))
    # positive verdict never leads to a None (execute) exit without consulting the remaining dependencies
    none_defs = _none_exit_blocks(chk)
    # (a leftover reserved dependency is a reason too: `Dependency::ReservedRequire => return None`)
    reserved = {('e', bb_, k_) for (bb_, k_), g_ in chk.guards.items() if g_.kind == 'enum' and g_.extra == roles.dep_enum and g_.variants() == frozenset(['ReservedRequire'])}
    seen = chk.reach([0], avoid=ctx.both(inf, lambda n: n in neg or n in reserved))
    bad = [b for b in none_defs if b in seen]
    R.ob('TD-check-none-reasons', key, not bad, 'the check answers "execute" only after a dependency was reported inconsistent or its check failed (or no output is cached)' if not bad
         else 'the check can answer "execute" although every dependency checked so far was consistent:\n' + chk.fmt_path(chk.witness(seen, bad[0])), ctx.where(chk), props=('C02', 'C09'))
    # the reuse exit is reached only through the end of the iteration, and returns the output of the checked node
    seen = chk.reach([0], avoid=ctx.both(inf, lambda n: n in none_edges))
    bad = [b for b in nonnone if b in seen]
    R.ob('TD-check-all-deps', key, not bad, 'the cached output is offered for reuse only after all dependencies were validated' if not bad
         else 'the cached output can be returned before the dependency list is exhausted:\n' + chk.fmt_path(chk.witness(seen, bad[0])), ctx.where(chk), props=('C01',))
    outs = [c for c in chk.find_calls(lambda c: is_callee(ctx, c, roles.get_out))]
    good = bool(outs) and all(chk.orig_operand(c.args[1]) == src_o for c in outs)
    R.ob('TD-check-output-node', key, good, 'the output offered for reuse is that of the checked task' if good else 'output of another node is returned', ctx.where(chk), props=('C01',))
    # C18 X1/X3: Err arm records the error and does not abort
    for e in sorted(n for n, k in vg.items() if k == 'neg-err'):
        _err_arm(ctx, chk, e, vcalls, 'TD', ('C18',))


def _err_arm(ctx, body, e, vcalls, tag, props):
    R, roles = ctx.R, ctx.roles
    inf = ctx.infeasible(body)
    vb = {c.bb for c in vcalls}
    pushes = [c for c in body.find_calls(lambda c: c.qname == 'std::vec::Vec::push') if
              vb & ctx.base_call_bbs(body.orig_operand(c.args[1])) and
              (ctx.has_field(body.orig_operand(c.args[0]), roles.f_errors) or 'dyn std::error::Error' in (c.gargs[0] if c.gargs else ''))]
    pb = {c.bb for c in pushes}
    seen = reach_from(ctx, body, e, extra_avoid=lambda n: n in pb)
    esc = [r for r in body.returns() if r in seen]
    R.ob(tag + '-err-recorded', body.path, not esc and bool(pushes), 'a checker error is pushed onto the session\'s dependency-check errors on every path of the error arm' if not esc and pushes
         else 'the error arm can return without recording the checker error', ctx.where(body, e[1]), props=props)
    seen = reach_from(ctx, body, e)
    div = [n for n in seen if not isinstance(n, tuple) and body.is_diverging_block(n) and body.blocks[n]['term']['k'] == 'call']
    R.ob(tag + '-err-no-abort', body.path, not div, 'the error arm contains no aborting call' if not div
         else 'the error arm can abort the build: %s' % body.call_at(div[0]), ctx.where(body, e[1]), props=props)


def _none_exit_blocks(body):
    out = []
    for d in body.defs.get(0, []):
        if d[0] == 'stmt' and d[3]['k'] == 'aggr' and d[3]['ak'].get('variant') == 'None':
            out.append(d[1])
    return out


def _nonnone_exit_blocks(body):
    out = []
    for d in body.defs.get(0, []):
        if d[0] == 'stmt' and d[3]['k'] == 'aggr' and d[3]['ak'].get('variant') == 'None':
            continue
        out.append(d[1])
    return out


# ================================================================================================
# verdict origin / delegation (C09, C18 X4)

def _arg_ty(body, c, i):
    """the declared type of the local handed over as argument i (however generic the callee's signature is)"""
    if i >= len(c.args) or c.args[i][0] not in ('c', 'm') or c.args[i][1][1]:
        return ''
    return body.local_ty(c.args[i][1][0])


# ================================================================================================

def rule_verdict(ctx):
    R, roles, F = ctx.R, ctx.roles, ctx.F
    # 1. the dependency structs delegate to their own checker with their own stamp
    n = 0
    for b in F.bodies.values():
        if b.crate != 'pie' or b.name != 'check' or b.kind != 'AssocFn' or not b.impl_self or b.impl_trait:
            continue
        head = type_head(b.impl_self)
        if head not in ('pie::dependency::TaskDependency', 'pie::dependency::ResourceDependency'):
            continue
        n += 1
        qn = 'pie::OutputChecker::check' if head.endswith('TaskDependency') else 'pie::ResourceChecker::check'
        cs = b.find_calls(lambda c: c.qname == qn)
        good = len(cs) == 1
        detail = ''
        if good:
            c = cs[0]
            recv = b.orig_operand(c.args[0])
            stamp = b.orig_operand(c.args[-1])
            good = all(o.kind == 'arg' and o.key == 1 and ('f', 'checker') in o.path for o in recv) and all(o.kind == 'arg' and o.key == 1 and ('f', 'stamp') in o.path for o in stamp)
            if head.endswith('ResourceDependency'):
                res = b.orig_operand(c.args[1])
                st = b.orig_operand(c.args[2])
                good = good and all(o.kind == 'arg' and o.key == 1 and ('f', 'resource') in o.path for o in res) and all(o.kind == 'arg' and o.key == 2 for o in st)
            else:
                out = b.orig_operand(c.args[1])
                good = good and all(o.kind == 'arg' and o.key == 2 for o in out)
            ret = b.orig_local(0)
            good = good and ctx.base_call_bbs(ret) == {c.bb} and len(ret) == 1
            detail = 'receiver %s, stamp %s' % (b.describe_origins(recv), b.describe_origins(stamp))
        R.ob('VERDICT-delegate', b.path, good, 'the dependency is checked by its own checker, on its own resource/the given output, against its own stamp, and that answer is returned' if good
             else 'the dependency check does not delegate to its own checker with its own stamp (%s)' % detail, ctx.where(b), props=('C09',))
    R.floor('VERDICT', 'dependency check methods', n, 2, props=('C09',))
    # 2. booleans returned by the is_consistent family originate in is_none() of that check
    fam = [b for b in F.bodies.values() if b.crate == 'pie' and b.kind == 'AssocFn' and b.name in ('is_consistent', 'is_consistent_top_down', 'is_consistent_bottom_up')
           and not b.is_test_code()]
    # four trait methods (task / resource dependency x top-down / bottom-up); the shared inherent helper is optional
    R.floor('VERDICT', 'is_consistent* implementations', len(fam), 4, props=('C09', 'C18'))
    for b in fam:
        _verdict_fn(ctx, b)


def _verdict_fn(ctx, b):
    R, roles, F = ctx.R, ctx.roles, ctx.F
    key = b.path
    from rules_graph import _ret_defs
    rdefs = _ret_defs(b)  # looking through the return place of an inlined helper
    inf = ctx.infeasible(b)
    ret_ty = b.local_ty(0)
    checks = b.find_calls(lambda c: c.qname.endswith('Dependency::check') or c.qname in ('pie::OutputChecker::check', 'pie::ResourceChecker::check'))
    deleg = b.find_calls(lambda c: c.name in ('is_consistent',) and c.bb is not None and F.callee_body(c) is not None and F.callee_body(c).id != b.id)
    if not checks and deleg:
        # forwards to another member of the family: result returned unchanged
        ret = b.orig_local(0)
        good = len(ret) == 1 and ctx.base_call_bbs(ret) == {deleg[0].bb}
        R.ob('VERDICT-forward', key, good, 'forwards the verdict of %s unchanged' % deleg[0].qname if good else 'verdict is altered while forwarding: %s' % b.describe_origins(ret), ctx.where(b), props=('C09', 'C18'))
        # it must pass its own checker/stamp/resource state along
        return
    if not checks:
        R.undecided('VERDICT-origin', key, 'no checker call found', ctx.where(b), props=('C09',))
        return
    chk = checks[0]
    # `check(..).map(|i| i.is_none()).map_err(Box::from)`: the combinator form of `Ok(check(..)?.is_none())` - `map` keeps an Err, `map_err`
    # keeps it an Err, and the Ok payload is the closure's answer
    if type_head(ret_ty) == 'std::result::Result':
        chain = []
        cur = b.orig_local(0)
        while len(cur) == 1 and next(iter(cur)).kind == 'call' and not next(iter(cur)).path:
            c = b.calls[next(iter(cur)).key]
            if c.qname in ('std::result::Result::map', 'std::result::Result::map_err') and len(c.args) == 2:
                chain.append(c)
                cur = b.orig_operand(c.args[0])
            else:
                break
        maps = [c for c in chain if c.qname.endswith('::map')]
        if chain and len(maps) == 1 and ctx.base_call_bbs(cur) == {chk.bb} and all(not o.path for o in cur):
            cb = None
            for o in b.orig_operand(maps[0].args[1]):
                if o.kind == 'aggr':
                    cb = F.bodies.get(b.blocks[o.key[0]]['stmts'][o.key[1]]['rv']['ak'].get('closure'))
            good = False
            if cb is not None:
                ro = cb.orig_local(0)
                good = len(ro) == 1 and all(o.kind == 'call' and cb.calls[o.key].qname == 'std::option::Option::is_none'
                                            and all(x.kind == 'arg' and x.key == 2 for x in cb.orig_operand(cb.calls[o.key].args[0])) for o in ro)
            R.ob('VERDICT-origin', key, good, 'the verdict is exactly "the checker reported no inconsistency" (is_none of its answer, mapped over the Result)' if good
                 else 'the Ok payload of the verdict is not is_none of the checker\'s answer', ctx.where(b), props=('C09', 'C01', 'C03'))
            R.ob('VERDICT-err-propagates', key, True, 'an error of the checker is returned as an error (Result::map / map_err keep an Err an Err)', ctx.where(b, chk.bb), props=('C18',))
            return
    # find bool producers
    payloads = []
    if ret_ty == 'bool':
        payloads = [('ret', b.orig_local(0))]
    else:
        for d in rdefs:
            if d[0] == 'stmt' and d[3]['k'] == 'aggr' and d[3]['ak'].get('variant') == 'Ok':
                payloads.append(('ok', b.orig_operand(F.operand(d[3]['ops'][0]))))
    good = True
    why = ''
    consts = []
    for kind, os_ in payloads:
        for o in os_:
            if o.kind == 'call':
                c = b.calls[o.key]
                if c.qname == 'std::option::Option::is_none' and ctx.base_call_bbs(b.orig_operand(c.args[0])) == {chk.bb}:
                    continue
                good = False
                why = 'verdict comes from %s' % c.qname
            elif o.kind == 'const':
                consts.append(o.key)
            elif o.kind == 'op' and b.blocks[o.key[0]]['stmts'][o.key[1]]['rv']['k'] == 'un' and b.blocks[o.key[0]]['stmts'][o.key[1]]['rv']['uop'] == 'Not' and (lambda io: bool(io) and all(
                    x.kind == 'call' and b.calls[x.key].qname == 'std::option::Option::is_some' and ctx.base_call_bbs(b.orig_operand(b.calls[x.key].args[0])) == {chk.bb} for x in io))(
                    b.orig_operand(F.operand(b.blocks[o.key[0]]['stmts'][o.key[1]]['rv']['a']))):
                continue  # `!answer.is_some()` is `answer.is_none()`
            else:
                good = False
                why = 'verdict origin %s' % b.describe_origin(o)
    # constants: `true` is only admissible under the None arm of a match on the check result; `false` under Some / type mismatch
    const_sites = []
    if ret_ty == 'bool':
        for d in rdefs:
            if d[0] == 'stmt' and d[3]['k'] == 'use' and 'k' in d[3]['op']:
                const_sites.append((d[1], d[3]['op']['k'].get('int')))
    else:
        for d in rdefs:
            if d[0] == 'stmt' and d[3]['k'] == 'aggr' and d[3]['ak'].get('variant') == 'Ok' and 'k' in d[3]['ops'][0]:
                const_sites.append((d[1], d[3]['ops'][0]['k'].get('int')))
    if good:
        for bb, val in const_sites:
            req = b.edges_required_for(bb)
            on_chk = [g for g in req if g.kind == 'enum' and chk.bb in ctx.base_call_bbs(g.origins)]
            if val == '1':
                if not any(g.variants() == frozenset(['None']) for g in on_chk):
                    good = False
                    why = 'a constant `true` verdict is returned without the checker reporting consistency'
            else:
                if any(g.variants() == frozenset(['None']) for g in on_chk):
                    good = False
                    why = 'a constant `false` verdict is returned although the checker reported consistency'
    R.ob('VERDICT-origin', key, good and bool(payloads), 'the verdict is exactly "the checker reported no inconsistency" (is_none of its answer)' if good and payloads
         else (why or 'no verdict payload found'), ctx.where(b), props=('C09', 'C01', 'C03'))
    # X4: an Err of the check is returned as Err
    if type_head(ret_ty) == 'std::result::Result':
        def avoid(n):
            if isinstance(n, tuple):
                g = b.guard_of(n[1], n[2])
                if g is not None and g.kind == 'enum' and g.origins and chk.bb in ctx.base_call_bbs(g.origins) and all(not o.path for o in g.origins):
                    vs = g.variants()
                    return vs is not None and not (vs & {'Err', 'Break'})
            return False
        tested = any(g.kind == 'enum' and chk.bb in ctx.base_call_bbs(g.origins) and all(not o.path for o in g.origins) for g in b.guards.values())
        seen = b.reach([chk.bb], avoid=ctx.both(inf, avoid))
        kinds = set()
        for d in rdefs:
            if d[1] in seen and d[1] != chk.bb:
                if d[0] == 'stmt' and d[3]['k'] == 'aggr':
                    kinds.add(d[3]['ak'].get('variant'))
                elif d[0] == 'call' and d[2].qname == 'std::ops::FromResidual::from_residual':
                    kinds.add('Err')
                elif d[0] == 'call' and F.callee_body(d[2]) is not None:
                    kinds.add('Err')  # forwarded Result
                else:
                    kinds.add('?')
        good = tested and kinds == {'Err'}
        R.ob('VERDICT-err-propagates', key, good, 'an error of the checker is returned as an error (never turned into a verdict)' if good
             else 'when the checker fails, this function can return %s' % (sorted(kinds) if tested else 'a value without looking at the error'), ctx.where(b, chk.bb), props=('C18',))
    # diverging calls on the check result (unwrap/expect) abort the build
    for c in b.find_calls(lambda c: c.name in ('unwrap', 'expect', 'unwrap_or', 'unwrap_or_default', 'unwrap_or_else', 'ok') and c.args and chk.bb in ctx.base_call_bbs(b.orig_operand(c.args[0]))):
        res_like = 'Result' in (c.impl_self or '')
        R.ob('VERDICT-no-unwrap', key + '#' + c.name, not res_like, 'ok' if not res_like else 'the checker\'s Result is consumed by %s: the error is lost or aborts the build' % c.qname, ctx.where(b, c.bb), props=('C18',))
    # top-down task check: the required task is made consistent first, and that output is what is checked
    if b.impl_trait == 'pie::context::top_down::TopDownCheckObj':
        mks = [c for c in b.calls.values() if F.callee_body(c) is not None and reaches_exec(ctx, F.callee_body(c))]
        good = len(mks) == 1
        if good:
            mk = mks[0]
            w = b.must_before(chk.bb, ctx.both(inf, lambda n: n == mk.bb))
            oo = b.orig_operand(chk.args[1])
            good = w is None and ctx.base_call_bbs(oo) == {mk.bb}
            to = b.orig_operand(mk.args[1])
            good = good and all(o.kind == 'arg' and o.key == 1 for o in to) and bool(to)
        R.ob('VERDICT-td-recursive', key, good, 'a require dependency is validated by first making the required task consistent and checking *that* output' if good
             else 'the required task is not made consistent before its output is checked (or a different output is checked)', ctx.where(b), props=('C01', 'C09'))


# ================================================================================================
# bottom-up: scheduling coverage, exit guards, queue (C03 C04 C18)
# ================================================================================================

SORT_FNS = ('core::slice::sort_unstable_by', 'core::slice::sort_by', 'core::slice::sort_unstable_by_key', 'core::slice::sort_by_key',
            'core::slice::sort_by_cached_key', 'core::slice::sort', 'core::slice::sort_unstable')


def resolve_bottom_up(ctx):
    roles, F = ctx.roles, ctx.F
    r = {}
    # Queue ADT
    qadt = None
    for p, a in F.adts.items():
        if a['kind'] != 'struct' or a['crate'] != 'pie':
            continue
        tys = {f['name']: f['ty'].replace('crate::', 'pie::') for f in a['variants'][0]['fields']}
        sets = [n for n, t in tys.items() if t.startswith('std::collections::HashSet<%s' % roles.task_node)]
        vecs = [n for n, t in tys.items() if t.startswith('std::vec::Vec<%s' % roles.task_node)]
        if len(sets) == 1 and len(vecs) == 1:
            qadt = p
            r['q_set'], r['q_vec'] = sets[0], vecs[0]
    r['queue_adt'] = qadt
    qm = [b for b in F.bodies.values() if qadt and b.kind == 'AssocFn' and b.impl_self and type_head(b.impl_self) == qadt and not b.impl_trait]

    def one(name, cands):
        r[name] = cands[0] if len(cands) == 1 else None
        roles.note(name, cands[0].path if len(cands) == 1 else 'UNRESOLVED %s' % [c.path for c in cands])
    def has(b, pred):  # in the method or in one of its closures (`found.map(|(i, n)| { vec.swap_remove(i); .. })`)
        return any(x.find_calls(pred) for x in F.with_closures(b))
    one('q_add', [b for b in qm if has(b, lambda c: c.qname == 'std::vec::Vec::push')])
    one('q_sort', [b for b in qm if has(b, lambda c: c.qname in SORT_FNS)])
    removers = [b for b in qm if has(b, lambda c: c.qname in ('std::vec::Vec::pop', 'std::vec::Vec::remove', 'std::vec::Vec::swap_remove', 'std::vec::Vec::retain', 'std::vec::Vec::drain', 'std::vec::Vec::truncate'))]
    one('q_pop', [b for b in removers if b.argc == 2])
    one('q_pop_least', [b for b in removers if b.argc == 3])
    bu = [b for b in F.bodies.values() if b.crate == 'pie' and not b.is_test_code() and b.impl_self and 'BottomUpContext' in b.impl_self and b.kind == 'AssocFn']
    # the scheduling test: the one function of pie (a method of the context or of a helper struct, or a free fn) that asks a resource dependency for its bottom-up verdict
    one('try_sched', [b for b in F.bodies.values() if b.crate == 'pie' and not b.is_test_code() and b.kind in ('Fn', 'AssocFn') and not b.impl_trait and b.find_calls(lambda c: c.qname == VERDICT_BU_RES)])
    one('exec_and_sched', [b for b in bu if b.find_calls(lambda c: c.qname == VERDICT_BU_TASK)])
    r['sched_by_res'] = [b for b in bu if r.get('try_sched') and b.find_calls(lambda c: is_callee(ctx, c, r['try_sched']))
                         and not (r.get('exec_and_sched') and b.id == r['exec_and_sched'].id)]
    roles.note('sched_by_res', [b.path for b in r['sched_by_res']])
    one('req_now', [b for b in bu if r.get('q_pop_least') and b.find_calls(lambda c: is_callee(ctx, c, r['q_pop_least']))])
    one('bu_make', [b for b in bu if r.get('req_now') and b.find_calls(lambda c: is_callee(ctx, c, r['req_now']))])
    one('exec_scheduled', [b for b in bu if r.get('q_pop') and b.find_calls(lambda c: is_callee(ctx, c, r['q_pop']))])
    return r


def _queue_adds(ctx, body, q_add):
    return [c for c in body.find_calls(lambda c: is_callee(ctx, c, q_add))]


def rule_bottomup(ctx):
    R, roles, F = ctx.R, ctx.roles, ctx.F
    P = ('C03', 'C04')
    bu = resolve_bottom_up(ctx)
    ctx.bu = bu
    for need in ('q_add', 'try_sched', 'exec_and_sched', 'req_now', 'bu_make'):
        if bu.get(need) is None:
            R.missing('BU', need, 'bottom-up role not resolved', props=P + ('C18',))
            return
    q_add = bu['q_add']
    # S1: scheduling by changed resource looks at read AND write dependencies
    R.floor('BU-S1', 'schedule-by-resource entry points', len(bu['sched_by_res']), 1, props=('C03',))
    for b in bu['sched_by_res']:
        qs = [(c, roles.query_of_call(c)) for c in b.find_calls(lambda c: roles.query_of_call(c) is not None)]
        qs = [(c, q) for c, q in qs if q['dir'] == 'in' and q.get('item') and 'ResourceDependencyObj' in q['item']]
        good = len(qs) == 1 and isinstance(qs[0][1]['variants'], frozenset) and qs[0][1]['variants'] >= {'Read', 'Write'} and qs[0][1]['variants'] <= {'Read', 'Write'}
        R.ob('BU-S1', b.path, good, 'a reported resource change is examined against both the read and the write dependencies on that resource' if good
             else 'a reported change is examined only against %s dependencies' % (sorted(qs[0][1]['variants']) if qs and isinstance(qs[0][1]['variants'], frozenset) else '?'), ctx.where(b), props=('C03', 'C08'))
        if qs:
            _loop_feeds_try_sched(ctx, b, qs[0][0], bu, 'BU-S1-feeds')
    # S2..S4 in execute-and-schedule
    es = bu['exec_and_sched']
    key = es.path
    inf = ctx.infeasible(es)
    xcalls = [c for c in es.calls.values() if any(is_callee(ctx, c, sb) for sb, _ in roles.exec_sites)]
    if len(xcalls) != 1:
        R.undecided('BU-S2', key, 'expected exactly one call to an execution site in execute-and-schedule, found %d' % len(xcalls), ctx.where(es), props=P)
        return
    xc = xcalls[0]
    node_o = es.orig_operand(xc.args[2]) if len(xc.args) > 2 else frozenset()
    wq = [(c, roles.query_of_call(c)) for c in es.find_calls(lambda c: roles.query_of_call(c) is not None)]
    written = [(c, q) for c, q in wq if q['dir'] == 'out' and q.get('item') == roles.resource_node]
    good = len(written) == 1 and written[0][1]['variants'] == frozenset(['Write']) and es.orig_operand(written[0][0].args[1]) == node_o
    R.ob('BU-S2-written', key, good, 'after an execution the resources written by *that* task are enumerated (Write edges, outgoing)' if good
         else 'the written-resources query is missing, selects other variants, or asks about another node', ctx.where(es), props=('C03',))
    rdeps = [(c, q) for c, q in wq if q['dir'] == 'in' and q.get('item') and 'ResourceDependencyObj' in q['item']]
    good = len(rdeps) == 1 and isinstance(rdeps[0][1]['variants'], frozenset) and 'Read' in rdeps[0][1]['variants'] and rdeps[0][1]['variants'] <= {'Read', 'Write'}
    R.ob('BU-S2-readers', key, good, 'for each written resource the read dependencies on it are examined' if good else 'readers of written resources are not examined', ctx.where(es), props=('C03',))
    if good and written:
        # the resource asked about is the written one under iteration
        ro = es.orig_operand(rdeps[0][0].args[1])
        anc = ancestors(es, ro)
        R.ob('BU-S2-readers-of-written', key, written[0][0].bb in anc, 'the readers examined are readers of the written resource' if written[0][0].bb in anc
             else 'readers of a different resource are examined', ctx.where(es, rdeps[0][0].bb), props=('C03',))
        _loop_feeds_try_sched(ctx, es, rdeps[0][0], bu, 'BU-S2-feeds')
    reqs = [(c, q) for c, q in wq if q['dir'] == 'in' and q.get('item') and 'TaskDependencyObj' in q['item']]
    good = len(reqs) == 1 and reqs[0][1]['variants'] == frozenset(['Require']) and es.orig_operand(reqs[0][0].args[1]) == node_o
    R.ob('BU-S2-requirers', key, good, 'every require dependency on the executed task is examined' if good else 'the requirers of the executed task are not (all) examined', ctx.where(es), props=('C03',))
    # the scheduling must follow the execution
    for c, q in written + rdeps + reqs:
        w = es.must_before(c.bb, ctx.both(inf, lambda n: n == xc.bb))
        R.ob('BU-S2-after-exec', key + '#' + q['body'].name, w is None, 'dependants are examined after the task executed (against its new writes / output)' if w is None
             else 'dependants are examined before the task executed', ctx.where(es, c.bb), props=('C03', 'C04'))
    vts = es.find_calls(lambda c: c.qname == VERDICT_BU_TASK)
    for v in vts:
        oo = es.orig_operand(v.args[1])
        good = ctx.base_call_bbs(oo) == {xc.bb} and len(oo) == 1
        R.ob('BU-S2-new-output', key, good, 'requirers are checked against the output the execution just produced' if good
             else 'requirers are checked against %s' % es.describe_origins(oo), ctx.where(es, v.bb), props=('C03', 'C04', 'C09'))
        if reqs:
            anc = ancestors(es, es.orig_operand(v.args[0]))
            R.ob('BU-S2-req-receiver', key, reqs[0][0].bb in anc, 'the dependency asked is the requirer\'s dependency under iteration' if reqs[0][0].bb in anc else 'verdict receiver is not the iterated dependency',
                 ctx.where(es, v.bb), props=('C03',))
    if reqs and vts:
        nx = [x for x in es.find_calls(lambda x: x.qname == 'std::iter::Iterator::next') if reqs[0][0].bb in ancestors(es, es.orig_operand(x.args[0]))]
        some_e = [n for x in nx for n, g in guard_edges_on_call(es, x) if g.variants() == frozenset(['Some'])]
        w = _every_item_examined(ctx, es, some_e, vts, {x.bb for x in nx}) if some_e else 'the loop over the requirers was not found'
        R.ob('BU-S2-every-requirer', key, w is None, 'every requirer of the executed task is checked against the new output (only a currently executing / already queued task may be skipped)' if w is None
             else 'a requirer of the executed task can be skipped without its dependency being checked against the new output (a task made consistent earlier in the session is not exempt):\n%s' % w,
             ctx.where(es, reqs[0][0].bb), props=('C03', 'C09'))  # C09: an inconsistent require dependency always re-executes its owner
    # S4 polarity: schedule on the false edge, not on the true edge
    vg = verdict_guards(ctx, es, vts)
    adds = _queue_adds(ctx, es, q_add)
    ab = {c.bb for c in adds}
    nexts = {c.bb for c in es.find_calls(lambda c: c.qname == 'std::iter::Iterator::next')}
    for e, kind in sorted(vg.items()):
        if kind == 'neg-false':
            seen = reach_from(ctx, es, e, extra_avoid=lambda n: n in ab, stop=lambda n: n in nexts)
            esc = [n for n in (set(es.returns()) | nexts) if n in seen]
            R.ob('BU-S4-neg', key, not esc, 'a requirer whose checker rejects the new output is scheduled' if not esc else 'a requirer whose dependency became inconsistent is not scheduled on some path',
                 ctx.where(es, e[1]), props=('C03', 'C04', 'C09'))
            for a in adds:
                if a.bb in es.reach([e], avoid=inf):
                    anc = ancestors(es, es.orig_operand(a.args[1]))
                    good = bool(reqs) and reqs[0][0].bb in anc
                    R.ob('BU-S4-node', key, good, 'the task scheduled is the requirer under iteration' if good else 'a different task is scheduled: %s' % es.describe_origins(es.orig_operand(a.args[1])),
                         ctx.where(es, a.bb), props=('C03', 'C04'))
        elif kind == 'pos':
            seen = es.reach([e], avoid=ctx.both(inf, lambda n: n in nexts))
            hit = [n for n in ab if n in seen]
            R.ob('BU-S4-pos', key, not hit, 'a requirer whose checker accepts the new output is not scheduled (early cut-off)' if not hit
                 else 'a requirer is scheduled although its checker accepted the new output', ctx.where(es, e[1]), props=('C04', 'C09'))
    R.floor('BU-S4', 'verdict edges in execute-and-schedule', len([k for k in vg.values() if k in ('neg-false', 'pos')]), 2, props=('C03', 'C04'))
    # S7: marked consistent after execute-and-schedule
    ins = [c for c in es.find_calls(lambda c: c.qname == 'std::collections::HashSet::insert' and ctx.has_field(es.orig_operand(c.args[0]), roles.f_consistent)
                                    and es.orig_operand(c.args[1]) == node_o)]
    w = es.must_after(xc.bb, ctx.both(inf, lambda n: n in {c.bb for c in ins}))
    R.ob('BU-S7-exec', key, w is None, 'an executed task is marked consistent for the session' if w is None else 'an executed task is not marked consistent on some path', ctx.where(es), props=('C03', 'C04'))
    ret = es.orig_local(0)
    good = ctx.base_call_bbs(ret) == {xc.bb} and len(ret) == 1
    R.ob('BU-exec-ret', key, good, 'execute-and-schedule returns the output of the execution' if good else 'returned value: %s' % es.describe_origins(ret), ctx.where(es), props=('C03', 'C17'))

    # who may execute a task in a bottom-up build: execute-and-schedule (which then examines the task's dependants), or make-consistent for a
    # task that has no output yet (a new task has no dependants to re-examine). Any other caller executes a task whose readers / requirers
    # are never checked against its new output.
    bu_sites = [sb for sb, _ in roles.exec_sites if sb.impl_self and 'BottomUpContext' in sb.impl_self]
    n_x = 0
    for cbdy in F.bodies.values():
        if cbdy.crate != 'pie' or cbdy.is_test_code():
            continue
        for c in cbdy.calls.values():
            if cbdy.blocks[c.bb]['cleanup'] or not any(is_callee(ctx, c, sb) for sb in bu_sites):
                continue
            n_x += 1
            ok_ = cbdy.id == bu['exec_and_sched'].id
            if not ok_ and cbdy.id == bu['bu_make'].id:
                ok_ = any(gd.kind == 'enum' and gd.variants() == frozenset(['None']) and any(is_callee(ctx, sc, roles.get_out) for sc in gd.subject_calls())
                          for gd in cbdy.edges_required_for(c.bb))
            R.ob('BU-exec-callers', '%s->%s' % (cbdy.path, c.name), ok_, 'bottom-up execution happens in execute-and-schedule, or for a task without output' if ok_
                 else 'a task is executed in a bottom-up build outside execute-and-schedule: the tasks that read what it writes / require it are not examined against the new output',
                 ctx.where(cbdy, c.bb), props=('C03',))
    R.floor('BU-exec-callers', 'callers of the bottom-up execution sites', n_x, 2, props=('C03',))
    # who may queue a task: every Queue::add in the core sits behind a negative verdict of a dependency check in its function
    # ("executed only if one of its recorded dependencies is inconsistent"); an unconditional add executes unaffected tasks
    n_add = 0
    for ab in F.bodies.values():
        if ab.crate != 'pie' or ab.is_test_code() or ab.id == q_add.id:
            continue
        adds_ = _queue_adds(ctx, ab, q_add)
        if not adds_:
            continue
        vcs_ = ab.find_calls(lambda c: c.qname in (VERDICT_BU_RES, VERDICT_BU_TASK))
        vg_ = verdict_guards(ctx, ab, vcs_)
        negs_ = {n_ for n_, k_ in vg_.items() if k_.startswith('neg')}
        seen_ = ab.reach([0], avoid=ctx.both(ctx.infeasible(ab), lambda n_: n_ in negs_))
        for a in adds_:
            n_add += 1
            ok_ = bool(negs_) and a.bb not in seen_
            R.ob('BU-add-guarded', '%s#%d' % (ab.path, adds_.index(a)), ok_, 'a task is queued only after one of its dependencies was reported inconsistent (or its check failed)' if ok_
                 else 'a task can be queued without any of its dependencies having been reported inconsistent: it is executed although it is not affected', ctx.where(ab, a.bb), props=('C04',))
    R.floor('BU-add-guarded', 'sites that queue a task', n_add, 2, props=('C04',))
    # S3 / X2 in try_schedule
    ts = bu['try_sched']
    key = ts.path
    inf = ctx.infeasible(ts)
    vcs = ts.find_calls(lambda c: c.qname == VERDICT_BU_RES)
    w = _every_item_examined(ctx, ts, [0], vcs, ()) if vcs else 'no dependency check found'
    R.ob('BU-S3-checked', key, w is None, 'the dependency handed in is always checked (only a currently executing / already queued task may be skipped)' if w is None
         else 'the scheduling test can return without checking the dependency (a task made consistent earlier in the session is not exempt):\n%s' % w, ctx.where(ts), props=('C03',))
    vg = verdict_guards(ctx, ts, vcs)
    adds = _queue_adds(ctx, ts, q_add)
    ab = {c.bb for c in adds}
    for e, kind in sorted(vg.items()):
        if kind in ('neg-err', 'neg-false'):
            seen = reach_from(ctx, ts, e, extra_avoid=lambda n: n in ab)
            esc = [r for r in ts.returns() if r in seen]
            what = 'whose checker failed' if kind == 'neg-err' else 'reported inconsistent'
            R.ob('BU-S3-' + kind, key, not esc, 'a task with a resource dependency %s is scheduled' % what if not esc else 'a task with a resource dependency %s is not scheduled on some path' % what,
                 ctx.where(ts, e[1]), props=('C03', 'C18') if kind == 'neg-err' else ('C03', 'C09'))
            if kind == 'neg-err':
                _err_arm(ctx, ts, e, vcs, 'BU', ('C18',))
    pos = {n for n, k in vg.items() if k == 'pos'}
    negs = {n for n, k in vg.items() if k.startswith('neg')}
    for c in vcs:
        seen = ts.reach([c.bb], avoid=ctx.both(inf, lambda n: n in negs))
        hit = [n for n in ab if n in seen]
        R.ob('BU-S3-pos', key, not hit, 'a task whose resource dependency is consistent is not scheduled' if not hit else 'a task is scheduled although its dependency was reported consistent', ctx.where(ts, c.bb), props=('C04', 'C09'))
    for a in adds:
        ao = ts.orig_operand(a.args[1])
        good = all(o.kind == 'arg' for o in ao) and len(ao) == 1
        R.ob('BU-S3-node', key, good, 'the task scheduled is the one whose dependency was checked' if good else 'scheduled node origin: %s' % ts.describe_origins(ao), ctx.where(ts, a.bb), props=('C03', 'C04'))
    folds = getattr(ts, '_verdict_folds', {})
    covered = len(negs) + (1 if any(v is False for v in folds.values()) else 0)  # a fold to `false` merges the Err and the Ok(false) outcome into one edge
    R.floor('BU-S3', 'negative verdict outcomes (failed check, inconsistent) handled in try-schedule', covered, 2, props=('C03', 'C18'))

    # S5: bottom-up make-consistent exit guards
    mk = bu['bu_make']
    key = mk.path
    inf = ctx.infeasible(mk)
    execs = {c.bb for c in mk.calls.values() if F.callee_body(c) is not None and any(F.callee_body(c).id == sb.id for sb, _ in roles.exec_sites)}
    rn = [c for c in mk.calls.values() if is_callee(ctx, c, bu['req_now'])]
    cont_true = set()
    for (bb, k), g in mk.guards.items():
        if g.kind == 'bool' and g.truth() is True and any(c.qname == 'std::collections::HashSet::contains' and ctx.has_field(mk.orig_operand(c.args[0]), roles.f_consistent) for c in g.subject_calls()):
            cont_true.add(('e', bb, k))
    rn_edges = {('e', bb, k) for (bb, k), g in mk.guards.items() if g.kind == 'enum' and any(c.bb in ctx.base_call_bbs(g.origins) for c in rn)}
    seen = mk.reach([0], avoid=ctx.both(inf, lambda n: n in execs or n in cont_true or n in rn_edges))
    esc = [r for r in mk.returns() if r in seen]
    R.ob('BU-S5-reuse', key, not esc and bool(rn), 'a cached output is returned only if the task is already consistent in this session, or after the scheduled tasks it depends on were run first' if not esc and rn
         else 'make-consistent can reuse the cached output without first running the scheduled tasks it depends on:\n' + (mk.fmt_path(mk.witness(seen, esc[0])) if esc else ''),
         ctx.where(mk), props=('C03',))
    # a task without output reaches an execution
    outs = [c for c in mk.calls.values() if is_callee(ctx, c, roles.get_out)]
    ob = {c.bb for c in outs}

    def assume_no_output(n):
        if isinstance(n, tuple):
            g = mk.guard_of(n[1], n[2])
            if g is None:
                return False
            if g.kind == 'enum' and ob & ctx.base_call_bbs(g.origins) and all(not o.path for o in g.origins):
                vs = g.variants()
                return vs is not None and 'None' not in vs
            if g.kind == 'bool':
                for sc in g.subject_calls():
                    if sc.qname in ('std::option::Option::is_none', 'std::option::Option::is_some') and ob & ctx.base_call_bbs(mk.orig_operand(sc.args[0])):
                        want = sc.qname.endswith('is_none')
                        return g.truth() != want
        return False
    seen = mk.reach([0], avoid=ctx.both(inf, assume_no_output, lambda n: n in execs or n in cont_true))
    esc = [r for r in mk.returns() if r in seen]
    tested = any(assume_no_output(('e', bb, k)) for (bb, k) in mk.guards)
    R.ob('BU-S5-new', key, not esc and tested, 'a task without a cached output is executed' if not esc and tested else 'a task that never completed is not executed on some path', ctx.where(mk), props=('C03', 'C19'))
    # S6: require-scheduled-now loop exits
    rnb = bu['req_now']
    key = rnb.path
    inf = ctx.infeasible(rnb)
    pl = [c for c in rnb.calls.values() if is_callee(ctx, c, bu['q_pop_least'])]
    ex = [c for c in rnb.calls.values() if is_callee(ctx, c, es)]
    stop_edges = set()
    for (bb, k), g in rnb.guards.items():
        if g.kind == 'enum' and g.variants() == frozenset(['None']) and any(c.bb in ctx.base_call_bbs(g.origins) for c in pl):
            stop_edges.add(('e', bb, k))
        if g.kind == 'bool':
            for sc in g.subject_calls():
                if 'empty' in sc.name and type_head(sc.impl_self or '') == bu['queue_adt']:
                    # the edge on which the queue *is* empty: is_empty() = true, or is_not_empty() = false (polarity of the helper is checked by Q5)
                    says_empty = (g.truth() is True) if sc.name == 'is_empty' else (g.truth() is False)
                    if says_empty:
                        stop_edges.add(('e', bb, k))
    none_b = _none_exit_blocks(rnb)
    seen = rnb.reach([0], avoid=ctx.both(inf, lambda n: n in stop_edges))
    bad = [b for b in none_b if b in seen]
    R.ob('BU-S6-none', key, not bad and bool(pl), 'require-scheduled-now reports "not scheduled" only when the queue holds no (further) task that the required task depends on' if not bad and pl
         else 'require-scheduled-now can give up while such tasks remain scheduled', ctx.where(rnb), props=('C03',))
    some_b = [d[1] for d in rnb.defs.get(0, []) if d[0] == 'stmt' and d[3]['k'] == 'aggr' and d[3]['ak'].get('variant') == 'Some']
    eq_true = set()
    for (bb, k), g in rnb.guards.items():
        if g.kind == 'bool' and g.truth() is not None:
            for sc in g.subject_calls():
                # the edge asserting "the executed task is the required one": eq = true, or ne = false
                if (sc.qname == 'std::cmp::PartialEq::eq' and g.truth() is True) or (sc.qname == 'std::cmp::PartialEq::ne' and g.truth() is False):
                    a = [rnb.orig_operand(x) for x in sc.args]
                    if any(all(o.kind == 'arg' for o in s) for s in a) and any(any(c.bb in ctx.base_call_bbs(s) for c in pl) for s in a):
                        eq_true.add(('e', bb, k))
    seen = rnb.reach([0], avoid=ctx.both(inf, lambda n: n in eq_true))
    bad = [b for b in some_b if b in seen]
    good = not bad and bool(eq_true) and bool(ex)
    R.ob('BU-S6-some', key, good, 'an output is returned only for the required task itself, after it was executed from the queue' if good else 'an output can be returned for a task other than the required one', ctx.where(rnb), props=('C03', 'C04'))
    for c in pl:
        so = rnb.orig_operand(c.args[1])
        good = all(o.kind == 'arg' for o in so) and len(so) == 1
        R.ob('BU-S6-src', key, good, 'the queue is asked for dependencies of the required task' if good else 'pop-least is asked about %s' % rnb.describe_origins(so), ctx.where(rnb, c.bb), props=('C03', 'C04'))
    for c in ex:
        no = rnb.orig_operand(c.args[1])
        good = bool(pl) and ctx.base_call_bbs(no) == {pl[0].bb}
        R.ob('BU-S6-exec', key, good, 'the task executed is the one the queue selected' if good else 'executed node origin: %s' % rnb.describe_origins(no), ctx.where(rnb, c.bb), props=('C04',))
    # S7 (context require): consistent.insert after make-consistent in the bottom-up Context::require
    for b in F.bodies.values():
        if b.crate == 'pie' and b.impl_trait == 'pie::Context' and b.name == 'require' and 'BottomUpContext' in (b.impl_self or ''):
            mcs = [c for c in b.calls.values() if is_callee(ctx, c, mk)]
            node_arg = 2
            if not mcs:
                # make-consistent reached through a method of one of pie's own traits called on a type parameter (a generic `require` shared by
                # both contexts, inlined here): the implementation for this context type, if it forwards its node parameter to make-consistent
                for c in b.calls.values():
                    if F.callee_body(c) is not None or not (c.trait or '').startswith('pie::') or b.blocks[c.bb]['cleanup']:
                        continue
                    own = [x for x in F.callee_candidates(c) if x.crate == 'pie' and not x.is_test_code() and type_head(x.impl_self or '') == type_head(b.impl_self or '')]
                    if len(own) != 1:
                        continue
                    ks = [k for k in own[0].calls.values() if is_callee(ctx, k, mk)]
                    if len(ks) == 1:
                        po = own[0].orig_operand(ks[0].args[2])
                        if len(po) == 1 and all(o.kind == 'arg' and not o.path for o in po) and next(iter(po)).key - 1 < len(c.args):
                            mcs = [c]
                            node_arg = next(iter(po)).key - 1
                            break
            if not mcs:
                continue
            no = b.orig_operand(mcs[0].args[node_arg])
            ins = {c.bb for c in b.find_calls(lambda c: c.qname == 'std::collections::HashSet::insert' and ctx.has_field(b.orig_operand(c.args[0]), roles.f_consistent)
                                             and b.orig_operand(c.args[1]) == no)}
            w = b.must_after(mcs[0].bb, ctx.both(ctx.infeasible(b), lambda n: n in ins))
            R.ob('BU-S7-require', b.path, w is None, 'a task made consistent through require is marked consistent for the session' if w is None
                 else 'a required task is not marked consistent on some path', ctx.where(b), props=('C03', 'C04'))
    # the drain loop executes what the queue pops
    dl = bu.get('exec_scheduled')
    if dl is not None:
        pops = [c for c in dl.calls.values() if is_callee(ctx, c, bu['q_pop'])]
        exs = [c for c in dl.calls.values() if is_callee(ctx, c, es)]
        good = len(pops) == 1 and len(exs) == 1 and ctx.base_call_bbs(dl.orig_operand(exs[0].args[1])) == {pops[0].bb}
        R.ob('BU-drain', dl.path, good, 'the drain loop executes exactly the task the queue pops' if good else 'drain loop does not execute the popped task', ctx.where(dl), props=('C03', 'C04'))
        if good:
            none_e = {('e', bb, k) for (bb, k), g in dl.guards.items() if g.kind == 'enum' and g.variants() == frozenset(['None']) and pops[0].bb in ctx.base_call_bbs(g.origins)}
            seen = dl.reach([0], avoid=ctx.both(ctx.infeasible(dl), lambda n: n in none_e))
            esc = [r for r in dl.returns() if r in seen]
            R.ob('BU-drain-all', dl.path, not esc, 'the drain loop ends only when the queue is empty' if not esc else 'the drain loop can stop while tasks remain scheduled', ctx.where(dl), props=('C03',))


def _admissible_skip_edges(ctx, body):
    """Edges on which a dependant may be skipped without being examined: the true edge of `set.contains(x)` for a set
    that is NOT the session's memo of tasks made consistent in this session (today: the set of currently executing
    tasks - such a task re-validates its dependency itself when its require returns - or the queue's own membership
    set). The session memo is not admissible: a task validated earlier in the session is exactly what a later
    re-execution of one of its dependencies invalidates."""
    F, roles = ctx.F, ctx.roles
    out = set()
    for (bb, k), g in body.guards.items():
        if g.kind != 'bool' or g.truth() is not True:
            continue
        for sc in g.subject_calls():
            if not sc.qname.endswith('HashSet::contains') or not sc.args:
                continue
            ro = body.orig_operand(sc.args[0])
            if ctx.has_field(ro, roles.f_consistent):
                continue
            bad = False
            for o in ro:
                if o.kind == 'arg':  # a set handed in by the caller: look at what the callers pass
                    for cb in F.bodies.values():
                        if cb.crate != body.crate or cb.is_test_code():
                            continue
                        for c in cb.calls.values():
                            if is_callee(ctx, c, body) and o.key - 1 < len(c.args) and ctx.has_field(cb.orig_operand(c.args[o.key - 1]), roles.f_consistent):
                                bad = True
            if not bad:
                out.add(('e', bb, k))
    return out


def _every_item_examined(ctx, body, starts, verdict_calls, stops):
    """None if every path from `starts` meets a verdict call before reaching `stops` / a return, except through an
    admissible skip; else a witness path."""
    inf = ctx.infeasible(body)
    vb = {c.bb for c in verdict_calls}
    adm = _admissible_skip_edges(ctx, body)
    seen = body.reach(starts, avoid=ctx.both(inf, lambda n: n in vb or n in adm))
    for t in list(stops) + list(body.returns()):
        if t in seen:
            return body.fmt_path(body.witness(seen, t))
    return None


def _loop_feeds_try_sched(ctx, body, qcall, bu, rule):
    """the (node, dependency) pairs produced by `qcall` are each handed to try-schedule"""
    R = ctx.R
    ts = [c for c in body.calls.values() if is_callee(ctx, c, bu['try_sched'])]
    good = False
    for c in ts:
        anc_n = ancestors(body, body.orig_operand(c.args[1]))
        anc_d = ancestors(body, body.orig_operand(c.args[2]))
        if qcall.bb in anc_n and qcall.bb in anc_d:
            nx = [x for x in body.find_calls(lambda x: x.qname == 'std::iter::Iterator::next') if qcall.bb in ancestors(body, body.orig_operand(x.args[0]))]
            if len(nx) == 1:
                some_e = [n for n, g in guard_edges_on_call(body, nx[0]) if g.variants() == frozenset(['Some'])]
                ok = True
                for e in some_e:
                    seen = body.reach([e], avoid=ctx.both(ctx.infeasible(body), lambda n: n == c.bb))
                    if nx[0].bb in seen or any(r in seen for r in body.returns()):
                        ok = False
                good = ok and bool(some_e)
    R.ob(rule, body.path, good, 'every dependency found is passed, with its own task node, to the scheduling test' if good
         else 'some dependency found by the query is not passed to the scheduling test', ctx.where(body, qcall.bb), props=('C03',))


def _through_tuple_aggr(body, F, origins):
    return origins


def _raw_arg0_calls(body, call):
    """origin calls of the first argument of `call`, without the identity shortcuts (adaptor chains)"""
    if not call.args or call.args[0][0] not in ('c', 'm'):
        return []
    l = call.args[0][1][0]
    out = []
    seen = set()
    work = [l]
    while work:
        x = work.pop()
        if x in seen:
            continue
        seen.add(x)
        for d in body.defs.get(x, []):
            if d[0] == 'call':
                out.append(type('O', (), {'key': d[1]})())
            elif d[0] == 'stmt' and d[3]['k'] in ('use', 'cast'):
                op = body.facts.operand(d[3]['op'])
                if op[0] in ('c', 'm'):
                    work.append(op[1][0])
            elif d[0] == 'stmt' and d[3]['k'] in ('ref', 'rawptr'):
                work.append(d[3]['pl']['l'])
    return out


def rule_queue(ctx):
    R, roles, F = ctx.R, ctx.roles, ctx.F
    bu = getattr(ctx, 'bu', None) or resolve_bottom_up(ctx)
    P = ('C04',)
    for need in ('q_add', 'q_sort', 'q_pop', 'q_pop_least'):
        if bu.get(need) is None:
            R.missing('Q', need, 'queue method not resolved', props=P)
            return
    vec_f, set_f = bu['q_vec'], bu['q_set']
    srt = bu['q_sort']
    # Q1: orientation of the comparator chain
    sc = srt.find_calls(lambda c: c.qname in SORT_FNS)[0]
    asc = None
    why = ''
    if sc.qname in ('core::slice::sort_unstable_by', 'core::slice::sort_by'):
        clos = [b for b in F.closures_of(srt)]
        cmp_calls = [(cb, c) for cb in clos for c in cb.calls.values() if is_callee(ctx, c, roles.topo_cmp)]
        if len(cmp_calls) == 1:
            cb, c = cmp_calls[0]
            a1 = cb.orig_operand(c.args[1])
            a2 = cb.orig_operand(c.args[2])
            k1 = sorted(o.key for o in a1 if o.kind == 'arg')
            k2 = sorted(o.key for o in a2 if o.kind == 'arg')
            ret_ok = ctx.base_call_bbs(cb.orig_local(0)) == {c.bb}
            if k1 == [2] and k2 == [3] and ret_ok:
                asc = True
            elif k1 == [3] and k2 == [2] and ret_ok:
                asc = False
            else:
                why = 'comparator does not compare its two arguments through the store order'
        else:
            why = 'comparator does not use the store\'s topological comparison'
    else:
        why = 'sort function %s: key provenance not decided' % sc.qname
    # store.topo_cmp and DAG::topo_cmp orientation are checked by STORE-topo_cmp-args and GRAPH-topo-cmp
    R.ob('Q1-comparator', srt.path, asc is not None, ('the queue is sorted %s by topological rank' % ('ascending' if asc else 'descending')) if asc is not None else why,
         ctx.where(srt), props=('C04', 'C16'))
    vo = srt.orig_operand(sc.args[0])
    R.ob('Q1-sorts-vec', srt.path, ctx.has_field(vo, vec_f), 'the sort is applied to the queue\'s vector' if ctx.has_field(vo, vec_f) else 'sort target: %s' % srt.describe_origins(vo), ctx.where(srt), props=P)
    for name in ('q_pop', 'q_pop_least'):
        b = bu[name]
        key = b.path
        inf = ctx.infeasible(b)
        sorts = {c.bb for c in b.calls.values() if is_callee(ctx, c, srt)} | {c.bb for c in b.find_calls(lambda c: c.qname in SORT_FNS)}
        rem = b.find_calls(lambda c: c.qname in ('std::vec::Vec::pop', 'std::vec::Vec::remove', 'std::vec::Vec::swap_remove') and ctx.has_field(b.orig_operand(c.args[0]), vec_f))
        scans = [c for c in b.find_calls(lambda c: c.qname == 'std::iter::Iterator::next') if any(x.qname in ('core::slice::iter', 'std::vec::Vec::iter') for x in ancestors(b, b.orig_operand(c.args[0])).values())]
        # selection by a searching adaptor over the vector's slice iterator: rposition / rfind scan from the back, position / find from the front
        adapt = [c for c in b.find_calls(lambda c: c.qname in ('std::iter::Iterator::rposition', 'std::iter::Iterator::position', 'std::iter::DoubleEndedIterator::rfind', 'std::iter::Iterator::find')
                                         and any(x.qname in ('core::slice::iter', 'std::vec::Vec::iter') for x in ancestors(b, b.orig_operand(c.args[0])).values()))] if not scans else []
        sel = rem if not scans else scans
        sel = sel + adapt
        for c in sel + rem:
            w = b.must_before(c.bb, ctx.both(inf, lambda n: n in sorts))
            R.ob('Q1-sorted-first', key + '#' + c.name, w is None, 'the queue is sorted before an element is selected / removed' if w is None else 'an element is selected from an unsorted queue', ctx.where(b, c.bb), props=P)
        # side
        side = None
        if scans:
            anc = ancestors(b, b.orig_operand(scans[0].args[0]))
            rev = sum(1 for x in anc.values() if x.qname == 'std::iter::Iterator::rev') % 2 == 1
            side = 'back' if rev else 'front'
        elif adapt:
            anc = ancestors(b, b.orig_operand(adapt[0].args[0]))
            rev = sum(1 for x in anc.values() if x.qname == 'std::iter::Iterator::rev') % 2 == 1
            from_back = adapt[0].qname.split('::')[-1] in ('rposition', 'rfind')
            side = 'back' if from_back != rev else 'front'
        elif rem:
            r0 = rem[0]
            if r0.qname == 'std::vec::Vec::pop':
                side = 'back'
            elif r0.qname in ('std::vec::Vec::remove', 'std::vec::Vec::swap_remove'):
                io = b.orig_operand(r0.args[1])
                if all(o.kind == 'const' for o in io) and {o.key for o in io} == {'0'}:
                    side = 'front'
        good = asc is not None and side is not None and ((asc and side == 'back') or ((not asc) and side == 'front'))
        R.ob('Q1-side', key, good, 'the candidate with the greatest rank (the deepest dependency) is selected first: sort %s, taken from the %s' % ('ascending' if asc else 'descending', side) if good
             else 'sort orientation (%s) and selection side (%s) do not select the deepest dependency first' % ({True: 'ascending', False: 'descending', None: '?'}[asc], side), ctx.where(b), props=P)
        # Q3: removal from vec paired with removal from set of the same node
        srem = b.find_calls(lambda c: c.qname == 'std::collections::HashSet::remove' and ctx.has_field(b.orig_operand(c.args[0]), set_f))
        sb = {c.bb for c in srem}
        for r0 in rem:
            # on paths where an element was actually taken (pop returned Some / always for remove), the set removal follows
            starts = [r0.bb]
            some_edges = [n for n, g in guard_edges_on_call(b, r0) if g.variants() == frozenset(['Some'])]
            if r0.qname == 'std::vec::Vec::pop' and some_edges:
                starts = some_edges
            bad = None
            for s in starts:
                seen = b.reach(b.xsucc(s) if not isinstance(s, tuple) else [s], avoid=ctx.both(inf, lambda n: n in sb))
                if any(r in seen for r in b.returns()):
                    bad = s
            R.ob('Q3-paired', key, bad is None and bool(srem), 'a node removed from the queue\'s vector is also removed from its set' if bad is None and srem
                 else 'a node is removed from the vector but stays in the set (it can never be scheduled again)', ctx.where(b, r0.bb), props=('C04', 'C03'))
        # the node returned is the node removed from the set
        for d in b.defs.get(0, []):
            if d[0] == 'stmt' and d[3]['k'] == 'aggr' and d[3]['ak'].get('variant') == 'Some':
                ro = b.orig_operand(F.operand(d[3]['ops'][0]))
                for s in srem:
                    so = b.orig_operand(s.args[1])
                    good = ro == so
                    R.ob('Q3-same-node', key, good, 'the node returned is the node removed' if good else 'returned %s but removed %s from the set' % (b.describe_origins(ro), b.describe_origins(so)), ctx.where(b, d[1]), props=('C04', 'C03'))
    # Q3-index: an index used to remove from the vector is the element's position in the vector
    for name in ('q_pop', 'q_pop_least'):
        b = bu[name]
        for r0 in b.find_calls(lambda c: c.qname in ('std::vec::Vec::remove', 'std::vec::Vec::swap_remove') and ctx.has_field(b.orig_operand(c.args[0]), vec_f)):
            io = b.orig_operand(r0.args[1])
            if all(o.kind == 'const' for o in io):
                continue
            nxs = [b.calls[o.key] for o in _through_tuple_aggr(b, F, io) if o.kind == 'call' and b.calls[o.key].name == 'next']
            good = False
            why = 'the removal index does not come from an enumeration of the vector'
            pos = [b.calls[o.key] for o in io if o.kind == 'call' and b.calls[o.key].qname in ('std::iter::Iterator::rposition', 'std::iter::Iterator::position')]
            if pos and len(pos) == len(io):
                # `iter().position(..)` / `.rposition(..)`: both count from the front of the underlying iterator; it is the vector position
                # iff the iterator is the vector's own slice iterator with nothing in between
                prev = [b.calls[o.key].qname for o in _raw_arg0_calls(b, pos[0])]
                itc = [x for x in ancestors(b, b.orig_operand(pos[0].args[0])).values() if x.qname in ('core::slice::iter', 'std::vec::Vec::iter')]
                good = bool(prev) and prev[0] in ('core::slice::iter', 'std::vec::Vec::iter') and len(itc) == 1 and any(
                    ctx.has_field(b.orig_operand(y.args[0]), vec_f) for y in [itc[0]] + list(ancestors(b, b.orig_operand(itc[0].args[0])).values()) if y.args)
                why = 'the index comes from a position search over %s, not over the vector itself' % prev
            if nxs:
                # walk the adaptor chain from the scan back to the vector
                chain = []
                cur = nxs[0]
                seen_ = set()
                while cur is not None and cur.bb not in seen_:
                    seen_.add(cur.bb)
                    chain.append(cur.qname)
                    prev = [b.calls[o.key] for o in _raw_arg0_calls(b, cur)]
                    cur = prev[0] if prev else None
                names = [q.split('::')[-1] for q in chain]
                if 'enumerate' in names:
                    inner = names[names.index('enumerate') + 1:]  # adaptors applied before enumerate
                    good = not any(x in ('rev', 'skip', 'filter', 'filter_map', 'step_by', 'skip_while', 'chain', 'zip') for x in inner)
                    why = 'the index comes from an enumeration applied after %s: it is not the position in the vector' % [x for x in inner if x in ('rev', 'skip', 'filter', 'filter_map', 'step_by')]
            R.ob('Q3-index', b.path, good, 'the index used for removal is the position of the selected element in the vector' if good else why, ctx.where(b, r0.bb), props=('C04', 'C03'))
    # Q1-sort-always: the sort helper sorts on every path, or skips only under a dirty flag that every order-disturbing mutation sets
    inf = ctx.infeasible(srt)
    sb = {c.bb for c in srt.find_calls(lambda c: c.qname in SORT_FNS)}
    seen = srt.reach([0], avoid=ctx.both(inf, lambda n: n in sb))
    skips = [r for r in srt.returns() if r in seen]
    R.ob('Q1-sort-always', srt.path, not skips, 'the sort helper sorts on every path' if not skips
         else 'the sort can be skipped: topological ranks change whenever an executing task adds a dependency (add_edge re-orders), so a queue that was sorted earlier is not known to be sorted now',
         ctx.where(srt), props=P)
    # Q4: candidate test orientation in pop_least
    b = bu['q_pop_least']
    ts = [c for c in b.calls.values() if is_callee(ctx, c, roles.trans_req)]
    cts = [(cb, c) for cb in F.closures_of(b) for c in cb.calls.values() if is_callee(ctx, c, roles.trans_req)] if not ts else []
    good = len(ts) == 1
    if good:
        a1 = b.orig_operand(ts[0].args[1])
        a2 = b.orig_operand(ts[0].args[2])
        good = all(o.kind == 'arg' and o.key == 2 for o in a1) and bool(a1) and all(o.kind == 'call' for o in a2) and bool(a2)
    elif len(cts) == 1:
        # the candidate test as the predicate of a searching adaptor: |queued| src == queued || requires(src, queued)
        cb, t = cts[0]
        a1 = cb.orig_operand(t.args[1])
        a2 = cb.orig_operand(t.args[2])
        caps = []
        for l, ds in b.defs.items():
            for d in ds:
                if d[0] == 'stmt' and d[3]['k'] == 'aggr' and d[3]['ak'].get('closure') == cb.id:
                    caps = [b.orig_operand(F.operand(x)) for x in d[3]['ops']]
        src_captured = any(x and all(o.kind == 'arg' and o.key == 2 for o in x) for x in caps)
        good = bool(a1) and all(o.kind == 'arg' and o.key == 1 for o in a1) and bool(a2) and all(o.kind == 'arg' and o.key == 2 for o in a2) and src_captured
        # polarity: on the false edge of the test the predicate cannot answer true
        tf = {n for n, g_ in guard_edges_on_call(cb, t) if g_.truth() is False}
        true_defs = [d[1] for d in cb.defs.get(0, []) if d[0] == 'stmt' and d[3]['k'] == 'use' and 'k' in d[3]['op'] and d[3]['op']['k'].get('int') == '1']
        direct = ctx.base_call_bbs(cb.orig_local(0)) >= {t.bb}
        seen_ = set()
        for e in tf:
            seen_ |= set(cb.reach([e], avoid=ctx.infeasible(cb)))
        pol = (bool(tf) and not any(x in seen_ for x in true_defs)) or (direct and not tf)
        R.ob('Q4-polarity', b.path, pol, 'a queued task that the required task does not depend on is skipped' if pol
             else 'a queued task is selected although the required task does not depend on it', ctx.where(b), props=('C04',))
    R.ob('Q4-orientation', b.path, good, 'a queued task is a candidate iff the required task (transitively) depends on it' if good
         else 'the candidate test is not `required task transitively requires queued task`', ctx.where(b), props=('C04', 'C03'))
    if len(ts) == 1:
        # the element is taken on the true edge of (eq || trans_req), not on the false one
        tr_false = {n for n, g in guard_edges_on_call(b, ts[0]) if g.truth() is False}
        seen = set()
        for e in tr_false:
            seen |= set(b.reach([e], avoid=ctx.both(ctx.infeasible(b), lambda n: not isinstance(n, tuple) and b.call_at(n) is not None and b.call_at(n).qname == 'std::iter::Iterator::next')))
        some_defs = [d[1] for l, ds in b.defs.items() for d in ds if d[0] == 'stmt' and d[3]['k'] == 'aggr' and d[3]['ak'].get('variant') == 'Some']
        hit = [x for x in some_defs if x in seen]
        R.ob('Q4-polarity', b.path, not hit and bool(tr_false), 'a queued task that the required task does not depend on is skipped' if not hit and tr_false
             else 'a queued task is selected although the required task does not depend on it', ctx.where(b), props=('C04',))
    # Q5: the emptiness helper reports the vector's emptiness with the polarity its name says
    for hb in F.bodies.values():
        if hb.kind == 'AssocFn' and hb.impl_self and type_head(hb.impl_self) == bu['queue_adt'] and not hb.impl_trait and hb.name in ('is_not_empty', 'is_empty'):
            ret = hb.orig_local(0)
            neg = None
            for d in hb.defs.get(0, []):
                if d[0] == 'stmt' and d[3]['k'] == 'un' and d[3]['uop'] == 'Not':
                    src = hb.orig_operand(F.operand(d[3]['a']))
                    if all(o.kind == 'call' and hb.calls[o.key].qname == 'std::vec::Vec::is_empty' and ctx.has_field(hb.orig_operand(hb.calls[o.key].args[0]), vec_f) for o in src) and src:
                        neg = True
                elif d[0] == 'call' and d[2].qname == 'std::vec::Vec::is_empty' and ctx.has_field(hb.orig_operand(d[2].args[0]), vec_f):
                    neg = False
            good = (neg is True) if hb.name == 'is_not_empty' else (neg is False)
            R.ob('Q5-emptiness', hb.path, good, '%s reports exactly whether the queue vector is %sempty' % (hb.name, 'non-' if hb.name == 'is_not_empty' else '') if good
                 else '%s does not return %sVec::is_empty of the queue vector' % (hb.name, '!' if hb.name == 'is_not_empty' else ''), ctx.where(hb), props=('C03', 'C04'))
    # Q2: add = push only when not already present, and inserts into the set
    b = bu['q_add']
    inf = ctx.infeasible(b)
    pushes = b.find_calls(lambda c: c.qname == 'std::vec::Vec::push' and ctx.has_field(b.orig_operand(c.args[0]), vec_f))
    for p in pushes:
        req = b.edges_required_for(p.bb)
        good = any(g.kind == 'bool' and ((g.truth() is False and any(sc.qname == 'std::collections::HashSet::contains' and ctx.has_field(b.orig_operand(sc.args[0]), set_f) for sc in g.subject_calls()))
                                         or (g.truth() is True and any(sc.qname == 'std::collections::HashSet::insert' and ctx.has_field(b.orig_operand(sc.args[0]), set_f) for sc in g.subject_calls())))
                   for g in req)
        R.ob('Q2-dedup', b.path, good, 'a task is pushed only if it is not already queued' if good else 'a task can be queued twice (it would be executed twice)', ctx.where(b, p.bb), props=P)
        ins = {c.bb for c in b.find_calls(lambda c: c.qname == 'std::collections::HashSet::insert' and ctx.has_field(b.orig_operand(c.args[0]), set_f) and b.orig_operand(c.args[1]) == b.orig_operand(p.args[1]))}
        w1 = b.must_before(p.bb, ctx.both(inf, lambda n: n in ins))
        w2 = b.must_after(p.bb, ctx.both(inf, lambda n: n in ins))
        good = w1 is None or w2 is None
        R.ob('Q2-set', b.path, good, 'a queued task is also recorded in the membership set' if good else 'a pushed task is not recorded in the membership set', ctx.where(b, p.bb), props=P)
    R.floor('Q2', 'push sites in Queue::add', len(pushes), 1, props=P)


CHECK_ERROR_SOURCES = ('pie::ResourceChecker::check', VERDICT_TD_RES, VERDICT_BU_RES, 'pie::dependency::ResourceDependency::check',
                       'pie::dependency::ResourceDependency::is_consistent')
RESULT_ERASERS = ('unwrap', 'expect', 'unwrap_or', 'unwrap_or_default', 'unwrap_or_else', 'ok', 'is_ok', 'is_err', 'map_or', 'map_or_else',
                  'unwrap_unchecked', 'is_ok_and', 'unwrap_or_else', 'iter', 'into_iter')


def _records_and_folds_false(ctx, b, c):
    """`result.unwrap_or_else(|e| { errors.push(e); false })`: the error is recorded and the dependency counts as inconsistent"""
    if c.name != 'unwrap_or_else' or len(c.args) < 2:
        return False
    for o in b.orig_operand(c.args[1]):
        if o.kind == 'aggr':
            cid = b.blocks[o.key[0]]['stmts'][o.key[1]]['rv']['ak'].get('closure')
            cb = ctx.F.bodies.get(cid)
            if cb is None:
                continue
            ret = cb.orig_local(0)
            folds_false = len(ret) == 1 and all(q.kind == 'const' and q.key == '0' for q in ret)
            pushes = [x for x in cb.calls.values() if x.qname == 'std::vec::Vec::push' and all(q.kind == 'arg' and q.key == 2 for q in cb.orig_operand(x.args[1]))]
            on_all = bool(pushes) and not any(r in cb.reach([0], avoid=lambda n: n in {p.bb for p in pushes}) for r in cb.returns())
            if folds_false and on_all:
                return True
    return False


def rule_error_discipline(ctx):
    """C18 X5: every Result that can carry a checker error from a validation-time check is propagated
    (`?`), matched on, or returned; it is never unwrapped (abort) or flattened to a value (swallowed)."""
    R, F = ctx.R, ctx.F
    n = 0
    for b in F.bodies.values():
        if b.crate != 'pie' or b.is_test_code():
            continue
        if b.impl_trait == 'pie::ResourceChecker':
            continue  # checker implementations handle their own I/O errors; validation is about their callers
        srcs = b.find_calls(lambda c: c.qname in CHECK_ERROR_SOURCES)
        for s in srcs:
            n += 1
            users = [c for c in b.calls.values() if c.args and c.args[0][0] in ('c', 'm') and s.bb in ctx.base_call_bbs(b.orig_operand(c.args[0]))
                     and 'Result' in (c.impl_self or '') and c.name in RESULT_ERASERS and not _records_and_folds_false(ctx, b, c)]
            good = not users
            matched = any(s.bb in ctx.base_call_bbs(g.origins) for g in b.guards.values())
            returned = s.bb in ctx.base_call_bbs(b.orig_local(0))
            passed_on = any(s.bb in ctx.base_call_bbs(b.orig_operand(a)) for c in b.calls.values() if c.bb != s.bb for a in c.args)
            good = good and (matched or returned or passed_on)
            R.ob('ERR-discipline', b.path + '#' + s.name, good, 'the checker\'s Result is propagated / matched / returned' if good
                 else ('the checker\'s Result is consumed by %s (error swallowed or build aborted)' % users[0].qname if users else 'the checker\'s Result is dropped'),
                 ctx.where(b, s.bb), props=('C18',))
    R.floor('ERR-discipline', 'call sites that can carry a checker error', n, 5, props=('C18',))
    # who may shrink the error list: nobody (errors of a session are only ever appended and read)
    roles = ctx.roles
    READ_OK = {'push', 'iter', 'len', 'is_empty', 'as_slice', 'deref', 'first', 'last', 'get', 'default', 'new', 'with_capacity', 'reserve', 'extend', 'append', 'fmt'}
    for b in F.bodies.values():
        if b.crate != 'pie' or b.is_test_code():
            continue
        for c in b.calls.values():
            if b.blocks[c.bb]['cleanup'] or not c.args or c.args[0][0] not in ('c', 'm'):
                continue
            if ctx.has_field(b.orig_operand(c.args[0]), roles.f_errors) and type_head(c.impl_self or '') in ('std::vec::Vec', '[T]') and c.name not in READ_OK:
                R.ob('ERR-who-mutates', b.path + '#' + c.name, False, 'the session\'s dependency-check error list is modified by %s: errors reported earlier in the session are lost' % c.qname, ctx.where(b, c.bb), props=('C18',))
        for (bb, si, pl, rv, ln) in b.stores:
            names = [p[2] for p in pl[1] if isinstance(p, tuple) and p[0] == 'f']
            if names and names[-1] == roles.f_errors:
                R.ob('ERR-who-mutates', b.path + '#assign', False, 'the session\'s dependency-check error list is re-assigned: errors reported earlier in the session are lost', '%s:%s %s' % (b.file, ln, b.path), props=('C18',))
    R.ob('ERR-who-mutates', 'summary', True, 'the error list is only appended to and read', '', props=('C18',))
    # the public accessor iterates the same vector the arms push to
    acc = [b for b in F.bodies.values() if b.crate == 'pie' and b.name == 'dependency_check_errors' and b.impl_self and type_head(b.impl_self) == roles.session_adt]
    good = False
    for b in acc:
        for c in b.calls.values():
            if c.args and ctx.has_field(b.orig_operand(c.args[0]), roles.f_errors):
                good = True
    R.ob('ERR-accessor', 'dependency_check_errors', good, 'Session::dependency_check_errors reports the vector the validation arms push to' if good
         else 'the public error accessor does not read the session\'s dependency-check error vector', ctx.where(acc[0]) if acc else '', props=('C18',))
