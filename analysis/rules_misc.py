"""Rule groups: tracker (C17), identity (C15), map resource / typed state (C14), determinism (C16)."""
import re

from core import Event, Origin, strip_generics, type_head, CLOSURE_CALLS
from roles import closure_result_under_variant, split_generic_args, DAG
from rules_build import ancestors, is_callee
from rules_protocol import TRACKER, guard_edges_on_call, refined_infeasible

TRK = 'pie::tracker::Tracker'


def camel(s):
    return ''.join(p.capitalize() for p in s.split('_'))


def params_in_order(body, call, first_arg, first_param):
    """args[first_arg..] of call are exactly parameters first_param.. of body, in order."""
    for i, a in enumerate(call.args[first_arg:]):
        os_ = body.orig_operand(a)
        if not (os_ and all(o.kind == 'arg' and o.key == first_param + i and not o.path for o in os_)):
            return False
    return True


# ================================================================================================
# C17
# ================================================================================================

def _array_children(F, b, origins, depth=0):
    """the fields of `self` behind the elements of an array the origins denote (built here, or returned by a local helper)"""
    out = None
    for o in origins:
        if o.path:
            return None
        if o.kind == 'aggr':
            rv = b.blocks[o.key[0]]['stmts'][o.key[1]]['rv']
            if rv['ak'].get('closure') or rv['ak'].get('adt'):
                return None
            elems = []
            for op in rv['ops']:
                oo = b.orig_operand(F.operand(op))
                if not oo or not all(x.kind == 'arg' and x.key == 1 for x in oo):
                    return None
                elems.append(tuple(sorted({p[1] for x in oo for p in x.path if isinstance(p, tuple) and p[0] == 'f'})))
        elif o.kind == 'call' and depth < 2:
            c = b.calls[o.key]
            cb = F.callee_body(c)
            if cb is None or not c.args or not all(x.kind == 'arg' and x.key == 1 and not [p for p in x.path if isinstance(p, tuple)] for x in b.orig_operand(c.args[0])):
                return None
            elems = _array_children(F, cb, cb.orig_local(0), depth + 1)
            if elems is None:
                return None
        else:
            return None
        if out is not None and out != elems:
            return None
        out = elems
    return out


def _forward_loop(ctx, b, c):
    """True if the single forwarding call sits in a loop that visits both children, a reason (str) if it is such a loop but defective, None otherwise"""
    F = ctx.F
    from rules_protocol import guard_edges_on_call as _geoc
    ro = b.orig_operand(c.args[0])
    if not ro or not all(o.kind == 'call' and b.calls[o.key].qname == 'std::iter::Iterator::next' for o in ro) or len({o.key for o in ro}) != 1:
        return None
    nx = b.calls[next(iter(ro)).key]
    src = b.orig_operand(nx.args[0])
    for _ in range(3):  # through into_iter / iter_mut
        if src and all(o.kind == 'call' and b.calls[o.key].name in ('into_iter', 'iter_mut') and not o.path for o in src):
            src = frozenset(x for o in src for x in b.orig_operand(b.calls[o.key].args[0]))
    elems = _array_children(F, b, src)
    if elems is None:
        return None
    if sorted(elems) != [('0',), ('1',)]:
        return 'forwards to children %s instead of once to each' % (elems,)
    if not params_in_order(b, c, 1, 2) or len(c.args) != b.argc:
        return 'parameters are not forwarded in order'
    inf = ctx.infeasible(b)
    some_e = [n for n, g in _geoc(b, nx) if g.variants() == frozenset(['Some'])]
    none_e = {n for n, g in _geoc(b, nx) if g.variants() == frozenset(['None'])}
    if not some_e or not none_e:
        return None
    for e in some_e:
        seen = b.reach([e], avoid=ctx.both(inf, lambda x: x == c.bb))
        if nx.bb in seen or any(r in seen for r in b.returns()):
            return 'a child is skipped on some path'
    seen = b.reach([0], avoid=ctx.both(inf, lambda x: x in none_e))
    if any(r in seen for r in b.returns()):
        return 'the loop over the children can be left before both were visited'
    return True


def rule_tracker(ctx):
    R, F, roles = ctx.R, ctx.F, ctx.roles
    P = ('C17',)
    trait = F.traits.get(TRK)
    if not trait:
        R.missing('W', 'Tracker', 'trait pie::tracker::Tracker not found', props=P)
        return
    tmethods = [m['name'] for m in trait['methods']]
    # ---- W1: Tracking helpers
    def end_fn_of(b):
        # a helper without subjects may hand out a named function instead of a closure: `fn build(&mut self) -> impl FnOnce(..) { start(); end_build }`
        ds = b.defs.get(0, [])
        if len(ds) == 1 and ds[0][0] == 'stmt' and ds[0][3]['k'] == 'use' and isinstance(ds[0][3]['op'].get('k'), dict) and 'fn' in ds[0][3]['op']['k']:
            return F.bodies.get(ds[0][3]['op']['k']['fn'].get('id'))
        return None
    helpers = [b for b in F.bodies.values() if b.crate == 'pie' and b.kind == 'AssocFn' and b.impl_self and type_head(b.impl_self) == ctx.roles.tracking_adt
               and not b.impl_trait and (b.local_ty(0).startswith('{closure@') or (b.argc == 1 and end_fn_of(b) is not None))]
    end_fns = {end_fn_of(b).id: b for b in helpers if not b.local_ty(0).startswith('{closure@')}
    # the build pair may also be emitted directly by the build entry points (no `build` helper): W8 below then decides the pairing there
    direct_build = [b for b in F.bodies.values() if b.crate == 'pie' and not b.is_test_code() and b.kind in ('AssocFn', 'Fn') and b.impl_trait != TRK
                    and not (b.impl_self and type_head(b.impl_self) == ctx.roles.tracking_adt)
                    and b.find_calls(lambda c: c.trait == TRK and c.name == 'build_start' and not b.blocks[c.bb]['cleanup'])]
    R.floor('W1', 'Tracking start/end helpers', len(helpers) + (1 if direct_build and not any(b.name == 'build' for b in helpers) else 0), 11, props=P)
    ctx.tracking_helpers = {b.id: b for b in helpers}
    for b in helpers:
        starts = b.find_calls(lambda c: c.trait == TRK)
        clos = F.closures_of(b) or ([end_fn_of(b)] if end_fn_of(b) is not None else [])
        ok = len(starts) == 1 and len(clos) == 1 and starts[0].name.endswith('_start')
        why = ''
        if not ok:
            why = 'helper does not consist of one *_start call and one end closure'
        else:
            s = starts[0]
            cb = clos[0]
            ends = cb.find_calls(lambda c: c.trait == TRK)
            if len(ends) != 1 or ends[0].name != s.name[:-len('_start')] + '_end':
                ok = False
                why = 'start %s is paired with end %s' % (s.name, [e.name for e in ends])
            else:
                e = ends[0]
                if not params_in_order(b, s, 1, 2):
                    ok = False
                    why = 'the start event is not given the helper\'s subjects in order'
                names = [b.local_name(2 + i) for i in range(len(s.args) - 1)]
                capt = []
                rest = []
                for a in e.args[1:]:
                    os_ = cb.orig_operand(a)
                    if os_ and all(o.kind == 'arg' and o.key == 1 for o in os_):
                        capt.append([p[1] for o in os_ for p in o.path if isinstance(p, tuple)][0] if any(o.path for o in os_) else '?')
                    else:
                        rest.append(sorted((o.kind, o.key) for o in os_))
                if capt != names:
                    ok = False
                    why = why or 'the end event names subjects %s, the start event %s' % (capt, names)
                want_rest = [[('arg', 3 + i)] for i in range(len(rest))]
                if rest != want_rest:
                    ok = False
                    why = why or 'the end event does not receive the closure\'s arguments in order'
                # the closure captures the very parameters
                for d in b.defs.get(0, []):
                    if d[0] == 'stmt' and d[3]['k'] == 'aggr':
                        caps = [sorted((o.kind, o.key) for o in b.orig_operand(F.operand(x))) for x in d[3]['ops']]
                        if caps != [[('arg', 2 + i)] for i in range(len(caps))]:
                            ok = False
                            why = why or 'the end closure does not capture the helper\'s subjects in order'
        R.ob('W1-helper', b.path, ok, 'start/end pair with the same subjects in the same order' if ok else why, ctx.where(b), props=P)
    # ---- W2: every start obtained from a helper is ended on every success exit (generic)
    def m_invoke(body, node):
        if isinstance(node, tuple):
            return None
        c = body.call_at(node)
        if c is None or c.qname not in CLOSURE_CALLS:
            return None
        return (body.orig_operand(c.args[0]),)
    ev_invoke = Event('invoke', m_invoke)
    n = 0
    for body in F.bodies.values():
        if body.crate != 'pie' or body.is_test_code() or (body.impl_self and type_head(body.impl_self) == ctx.roles.tracking_adt):
            continue
        for h in body.find_calls(lambda c: F.callee_body(c) is not None and F.callee_body(c).id in ctx.tracking_helpers):
            n += 1
            inf = refined_infeasible(ctx, body, assume_cur=True)
            blocks = ev_invoke.blocks_with(body, lambda k: h.bb in ctx.base_call_bbs(k[0]))
            exits = ctx.ok_exit_blocks(body)
            # an end event whose signature carries the error (Result<_, &dyn Error>) is owed on *every* normal exit
            hcl = F.closures_of(F.callee_body(h))
            if hcl and any('dyn std::error::Error' in hcl[0].local_ty(i) and 'Result<' in hcl[0].local_ty(i) for i in range(1, hcl[0].argc + 1)):
                exits = body.returns()
            bad = None
            seen = body.reach(body.xsucc(h.bb), avoid=ctx.both(inf, lambda x: x in blocks))
            for e in exits:
                if e in seen:
                    bad = body.witness(seen, e)
            R.ob('W2-ended', body.path + '#' + F.callee_body(h).name, bad is None, 'the end event of %s is emitted on every success path' % F.callee_body(h).name if bad is None
                 else 'a success path does not emit the end event of %s:\n%s' % (F.callee_body(h).name, body.fmt_path(bad)), ctx.where(body, h.bb), props=P)
    R.floor('W2', 'uses of Tracking helpers', n, 12, props=P)
    # direct start/end calls outside the helpers obey the same nesting
    for body in F.bodies.values():
        if body.crate != 'pie' or body.is_test_code() or body.impl_trait == TRK or (body.impl_self and type_head(body.impl_self) == ctx.roles.tracking_adt) or body.kind == 'Closure':
            continue
        if body.id in end_fns:
            continue  # the end half of a helper (W1-helper pairs it with its start, W2-ended enforces its invocation)
        for e in body.find_calls(lambda c: c.trait == TRK and c.name.endswith('_end')):
            sname = e.name[:-4] + '_start'
            starts = {c.bb for c in body.find_calls(lambda c: c.trait == TRK and c.name == sname)}
            inf = refined_infeasible(ctx, body, assume_cur=True)
            w = body.must_before(e.bb, ctx.both(inf, lambda x: x in starts))
            R.ob('W2-direct-nested', body.path + '#' + e.name, w is None, '%s is preceded by %s on every path' % (e.name, sname) if w is None else '%s can be emitted without a preceding %s' % (e.name, sname),
                 ctx.where(body, e.bb), props=P)
    # ---- W8: a build entry point emits build start (and, by W2, build end) on every path on which it returns
    builders = [b for b in F.bodies.values() if b.crate == 'pie' and not b.is_test_code() and b.kind == 'AssocFn' and
                any(F.callee_body(c) is not None and F.callee_body(c).name == 'build' and F.callee_body(c).id in ctx.tracking_helpers for c in b.calls.values())]
    builders += [b for b in direct_build if b not in builders]
    R.floor('W8', 'build entry points', len(builders), 2, props=P)
    for b in builders:
        hb = {c.bb for c in b.calls.values() if F.callee_body(c) is not None and F.callee_body(c).name == 'build' and F.callee_body(c).id in ctx.tracking_helpers}
        hb |= {c.bb for c in b.calls.values() if c.trait == TRK and c.name == 'build_start'}
        seen = b.reach([0], avoid=ctx.both(ctx.infeasible(b), lambda n: n in hb))
        esc = [r for r in b.returns() if r in seen]
        if not esc and b in direct_build:
            # emitted directly: the end event is this function's own obligation (no helper closure whose call W2 enforces)
            eb = {c.bb for c in b.calls.values() if c.trait == TRK and c.name == 'build_end' and not b.blocks[c.bb]['cleanup']}
            seen = b.reach([0], avoid=ctx.both(ctx.infeasible(b), lambda n: n in eb))
            esc = [r for r in b.returns() if r in seen]
        R.ob('W8-build-events', b.path, not esc, 'every completed build is bracketed by build_start / build_end' if not esc
             else 'the build entry point can return without emitting build_start / build_end (a recording tracker keeps showing the previous build):\n' + b.fmt_path(b.witness(seen, esc[0])),
             ctx.where(b), props=P)
    # ---- W4: composite tracker
    comp = [im for im in F.impls if im.get('trait') == TRK and im['self_ty'].startswith('pie::tracker::CompositeTracker') and im['crate'] == 'pie']
    # the same impl is seen once per compilation unit of the crate (lib, lib-test, ...): one entry per impl id
    comp = list({im.get('id'): im for im in comp}.values())
    if len(comp) != 1:
        R.missing('W4', 'CompositeTracker', 'impl Tracker for CompositeTracker not found', props=P)
    else:
        missing = [m for m in tmethods if m not in comp[0]['methods']]
        R.ob('W4-exhaustive', 'CompositeTracker', not missing, 'all %d Tracker methods are forwarded (none left to the empty default body)' % len(tmethods) if not missing
             else 'CompositeTracker does not override %s: those events reach neither child' % missing, '%s:%s' % (comp[0]['file'], comp[0]['line']), props=P)
        n = 0
        for b in F.bodies.values():
            if b.impl_id != comp[0]['id'] or b.kind != 'AssocFn':
                continue
            n += 1
            cs = b.find_calls(lambda c: c.trait == TRK)
            good = len(cs) == 2 and all(c.name == b.name for c in cs)
            why = 'does not forward to `%s` exactly twice (calls: %s)' % (b.name, [c.name for c in cs])
            if len(cs) == 1 and cs[0].name == b.name:
                # `for t in [&mut self.0 as &mut dyn Tracker, &mut self.1] { t.m(args) }` (the array possibly built by a helper)
                lw = _forward_loop(ctx, b, cs[0])
                if lw is True:
                    R.ob('W4-forward', b.path, True, 'forwards once to each child (loop over both children) with the same arguments', ctx.where(b), props=P)
                    continue
                if lw:
                    why = lw
            if good:
                sides = []
                for c in cs:
                    ro = b.orig_operand(c.args[0])
                    f = {p[1] for o in ro for p in o.path if isinstance(p, tuple)}
                    sides.append(tuple(sorted(f)))
                    if not params_in_order(b, c, 1, 2):
                        good = False
                        why = 'parameters are not forwarded in order'
                    if len(c.args) != b.argc:
                        good = False
                        why = 'not all parameters are forwarded'
                if sorted(sides) != [('0',), ('1',)]:
                    good = False
                    why = 'forwards to children %s instead of once to each' % sides
                inf = ctx.infeasible(b)
                for c in cs:
                    seen = b.reach([0], avoid=ctx.both(inf, lambda x: x == c.bb))
                    if any(r in seen for r in b.returns()):
                        good = False
                        why = 'a child is skipped on some path'
            R.ob('W4-forward', b.path, good, 'forwards once to each child with the same arguments' if good else why, ctx.where(b), props=P)
        R.floor('W4', 'CompositeTracker methods', n, len(tmethods), props=P)
    # ---- W5: recording tracker
    ev_enum = 'pie::tracker::event::Event'
    rec = [b for b in F.bodies.values() if b.impl_trait == TRK and b.impl_self == 'pie::tracker::event::EventTracker' and b.kind == 'AssocFn']
    R.floor('W5', 'EventTracker overrides', len(rec), 10, props=P)
    # helpers of the recorder that push their argument onto the event list on every path
    push_helpers = {}
    for hb in F.bodies.values():
        if hb.impl_self == 'pie::tracker::event::EventTracker' and not hb.impl_trait and hb.kind == 'AssocFn' and hb.argc == 2:
            hp = [c for c in hb.find_calls(lambda c: c.qname == 'std::vec::Vec::push' and ctx.has_field(hb.orig_operand(c.args[0]), 'events')
                                           and all(o.kind == 'arg' and o.key == 2 for o in hb.orig_operand(c.args[1])))]
            if hp and not any(r_ in hb.reach([0], avoid=lambda n: n in {c.bb for c in hp}) for r_ in hb.returns()):
                push_helpers[hb.id] = hb
    for b in rec:
        pushes = [c for c in b.find_calls(lambda c: (c.qname == 'std::vec::Vec::push' and ctx.has_field(b.orig_operand(c.args[0]), 'events'))
                                          or (F.callee_body(c) is not None and F.callee_body(c).id in push_helpers))]
        good = len(pushes) == 1
        why = 'expected exactly one push onto the event list'
        if good:
            p = pushes[0]
            vo = b.orig_operand(p.args[1])
            ok_variant = False
            for o in vo:
                if o.kind == 'aggr':
                    rv = b.blocks[o.key[0]]['stmts'][o.key[1]]['rv']
                    if strip_generics(b.fix(rv['ak'].get('adt', ''))) == ev_enum and rv['ak']['variant'] == camel(b.name):
                        ok_variant = True
                        # payload struct fields
                        for x in rv['ops']:
                            for po in b.orig_operand(F.operand(x)):
                                if po.kind != 'aggr':
                                    continue
                                prv = b.blocks[po.key[0]]['stmts'][po.key[1]]['rv']
                                adt = F.adts.get(strip_generics(b.fix(prv['ak'].get('adt', ''))))
                                if not adt:
                                    continue
                                fields = adt['variants'][0]['fields']
                                for fdef, fop in zip(fields, prv['ops']):
                                    fo = b.orig_operand(F.operand(fop))
                                    if fdef['name'] == 'index':
                                        lens = [b.calls[q.key] for q in fo if q.kind == 'call']
                                        if not (len(fo) == 1 and lens and lens[0].qname == 'std::vec::Vec::len' and ctx.has_field(b.orig_operand(lens[0].args[0]), 'events')):
                                            good = False
                                            why = 'index is not the length of the event list before the push'
                                        elif b.must_before(p.bb, lambda x: x == lens[0].bb) is not None:
                                            good = False
                                            why = 'index is read after the push'
                                    else:
                                        pn = [i for i in range(2, b.argc + 1) if b.local_name(i) == fdef['name']]
                                        if not pn or not (fo and all(q.kind == 'arg' and q.key == pn[0] for q in fo)):
                                            good = False
                                            why = 'field `%s` is not filled from the parameter of that name' % fdef['name']
            if not ok_variant:
                good = False
                why = 'does not push Event::%s' % camel(b.name)
            # the push is on every path
            seen = b.reach([0], avoid=ctx.both(ctx.infeasible(b), lambda x: x == p.bb))
            if any(r in seen for r in b.returns()):
                good = False
                why = 'the event is not recorded on every path'
        R.ob('W5-record', b.path, good, 'records Event::%s with fields from the same-named parameters and index = position in the list' % camel(b.name) if good else why, ctx.where(b), props=P)
    # ---- W6: Event query helpers
    table = F.enum_table(ev_enum) or {}
    helpers6 = [b for b in F.bodies.values() if b.impl_self == ev_enum and not b.impl_trait and b.kind == 'AssocFn' and re.match(r'(is|match)_', b.name)]
    R.floor('W6', 'Event query helpers', len(helpers6), 12, props=P)
    for b in helpers6:
        suffix = b.name.split('_', 1)[1]
        if suffix.endswith('_of'):
            suffix = suffix[:-3]
        want = {v for v in table.values() if v == camel(suffix)} or {v for v in table.values() if v.startswith(camel(suffix))}
        got = set()
        undecided = False
        def tests_enum(x):
            return any(g_.kind == 'enum' and g_.extra == ev_enum for g_ in x.guards.values())
        eb = b
        hs = {F.callee_body(c).id for c in b.calls.values() if F.callee_body(c) is not None and F.callee_body(c).id != b.id and F.callee_body(c).impl_self == ev_enum
              and tests_enum(F.callee_body(c))}
        if hs and not tests_enum(b):
            # a helper written in terms of other helpers (`self.match_x(t).is_some() || self.match_y(t).is_some()`): those are inlined for this evaluation
            try:
                import flatten as _fl
                from core import Body as _Body
                nd_, inl_ = _fl.inline_dict(F, b.d, b.crate, hs, {})
                if inl_:
                    nd_, _ = _fl.thread_dict(nd_)
                    eb = _Body(F, b.crate, nd_)
                    eb.unit, eb.unit_is_test = getattr(b, 'unit', None), getattr(b, 'unit_is_test', False)
            except Exception:
                eb = b
        for v in table.values():
            r = closure_result_under_variant(eb, ev_enum, v)
            if r in ('yes', 'maybe'):
                got.add(v)
            elif r == 'unknown':
                undecided = True
        if undecided:
            R.undecided('W6-variant', b.path, 'cannot evaluate the helper per variant', ctx.where(b), props=P)
            continue
        R.ob('W6-variant', b.path, got == want and bool(want), '%s answers positively exactly for %s' % (b.name, sorted(want)) if got == want and want
             else '%s answers positively for %s, expected %s' % (b.name, sorted(got), sorted(want)), ctx.where(b), props=P)
        # match_* compares the event's subject with the argument
        if b.name.startswith('match_') or b.name.endswith('_of'):
            eqs = b.find_calls(lambda c: c.qname == 'std::cmp::PartialEq::eq')
            good = any({tuple(sorted({o.key for o in b.orig_operand(a) if o.kind == 'arg'})) for a in c.args} == {(1,), (2,)} for c in eqs)
            R.ob('W6-subject', b.path, good, 'the subject stored in the event is compared with the argument' if good else 'the event\'s subject is not compared with the argument', ctx.where(b), props=P)
    # ---- W7: first_* helpers pair start and end of the same kind
    n = 0
    for b in F.bodies.values():
        if b.impl_self != 'pie::tracker::event::EventTracker' or b.impl_trait or b.kind != 'AssocFn':
            continue
        m = re.match(r'(first|any|one)_([a-z]+)', b.name)
        if not m:
            continue
        kind = m.group(2)
        callees = set()
        for x in F.with_closures(b):
            for c in x.calls.values():
                if c.impl_self == ev_enum or (F.callee_body(c) is not None and F.callee_body(c).impl_self == ev_enum):
                    callees.add(c.name)
        deleg = [c for c in b.calls.values() if F.callee_body(c) is not None and F.callee_body(c).impl_self == 'pie::tracker::event::EventTracker' and re.match(r'(first|any|one)_', c.name)]
        if not callees and not deleg:
            continue
        n += 1
        good = all(kind in c for c in callees) and all(kind in c.name for c in deleg if re.match(r'(first)_', c.name))
        if b.name in ('first_' + kind,):
            zips = b.find_calls(lambda c: c.qname == 'std::option::Option::zip')
            if zips:
                z = zips[0]
                def names_of(op):
                    out = set()
                    for c in ancestors(b, b.orig_operand(op)).values():
                        for a in c.args:
                            for o in b.orig_operand(a):
                                if o.kind == 'aggr':
                                    rv = b.blocks[o.key[0]]['stmts'][o.key[1]]['rv']
                                    cid = rv['ak'].get('closure')
                                    if cid and cid in F.bodies:
                                        out |= {cc.name for cc in F.bodies[cid].calls.values()}
                    return out
                good = good and any(x.endswith('_start') for x in names_of(z.args[0])) and any(x.endswith('_end') for x in names_of(z.args[1]))
        if b.name.endswith('_end') or b.name.endswith('_end_index'):
            good = good and all(c.endswith('_end') for c in callees)
        R.ob('W7-pairing', b.path, good, '%s uses the %s matchers (start before end)' % (b.name, kind) if good else '%s mixes event kinds: uses %s' % (b.name, sorted(callees)), ctx.where(b), props=P)
    R.floor('W7', 'EventTracker query helpers', n, 15, props=P)


# ================================================================================================
# C15
# ================================================================================================

PITFALL_METHODS = ('pie::trait_object::base::AsAny::as_any', 'pie::trait_object::base::AsAny::into_box_any', 'pie::trait_object::base::EqObj::eq_any',
                   'pie::trait_object::base::HashObj::hash_obj')
DYN_OBJS = ('ValueObj', 'KeyObj', 'TaskObj', 'MapValueObj', 'std::any::Any', 'TaskDependencyObj', 'ResourceDependencyObj')


def rule_identity(ctx):
    R, F, roles = ctx.R, ctx.F, ctx.roles
    P = ('C15',)
    # I1
    eqs = [b for b in F.bodies.values() if b.impl_trait == 'pie::trait_object::base::EqObj' and b.name == 'eq_any']
    R.floor('I1', 'eq_any implementations', len(eqs), 1, props=P)
    import absint
    for b in eqs:
        # semantic: evaluate eq_any(self = x, other) for the three shapes of `other`
        me = b.impl_self or 'Self'
        dcs = [c for bb_ in F.with_closures(b) for c in bb_.find_calls(lambda c: c.qname in ('dyn std::any::Any::downcast_ref', 'dyn std::any::Any::is'))]
        cases = [('same type, equal value', ('any', me, ('atom', 'x')), True), ('same type, different value', ('any', me, ('atom', 'y')), False),
                 ('different type, identical representation', ('any', 'Other', ('atom', 'x')), False)]
        # every other type the body asks about (a wrapper such as Box<Self>, Rc<Self>, ...): a value of that type holding an equal payload is
        # a *different* key (identity is (concrete type, value)), so the answer must be false
        for c in dcs:
            t = c.gargs[0] if c.gargs else None
            if t and t != me and not any(cs[1][1] == t for cs in cases):
                cases.append(('the distinct type %s wrapping an equal value' % t, ('any', t, ('atom', 'x')), False))
        ok = True
        why = ''
        dc_ok = any(c.gargs and c.gargs[0] == me for c in dcs)
        for name, other, want in cases:
            try:
                r = absint.evaluate(F, b, [('atom', 'x'), other])
            except absint.Undecided as e:
                ok = False
                why = 'UNDECIDED (%s): %s' % (name, e)
                break
            if r != ('bool', want):
                ok = False
                why = 'eq_any answers %s for a value of %s (must be %s)' % (r[1] if r[0] == 'bool' else r, name, want)
                break
        if ok and not dc_ok:
            ok = False
            why = 'the downcast is not to Self'
        R.ob('I1-eq-any', b.path, ok, 'eq_any is true exactly for a value of the same concrete type that compares equal (3 shapes evaluated)' if ok else why, ctx.where(b), props=P,
             status=None if ok or not why.startswith('UNDECIDED') else 'UNDECIDED')
    # I2 dyn PartialEq / Hash impls delegate
    def through_upcasts(b, operand, depth=0):
        """origins of an operand, looking through calls of local trait methods that return `self` as another trait object
        (e.g. TaskObj::as_key_obj: `self as &dyn KeyObj` in every implementation)"""
        out = set()
        for o in b.orig_operand(operand):
            if o.kind == 'call' and depth < 3:
                c = b.calls[o.key]
                cands = F.callee_candidates(c)
                if c.args and cands and all(x.argc == 1 and x.orig_local(0) and all(q.kind == 'arg' and q.key == 1 and not q.path for q in x.orig_local(0)) for x in cands):
                    out |= through_upcasts(b, c.args[0], depth + 1)
                    continue
            out.add(o)
        return out
    n = 0
    for b in F.bodies.values():
        if b.crate != 'pie' or b.is_test_code() or b.kind != 'AssocFn' or not b.impl_self:
            continue
        dyn_self = 'dyn ' in b.impl_self and any(x in b.impl_self for x in DYN_OBJS)
        if b.impl_trait == 'std::cmp::PartialEq' and b.name == 'eq' and dyn_self:
            n += 1
            rets = b.orig_local(0)
            good = False
            for o in rets:
                if o.kind == 'call':
                    c = b.calls[o.key]
                    if c.qname == 'pie::trait_object::base::EqObj::eq_any' and len(c.args) == 2:
                        a0 = b.orig_operand(c.args[0])
                        a1 = b.orig_operand(c.args[1])
                        asany = [b.calls[q.key] for q in a1 if q.kind == 'call']
                        good = all(q.kind == 'arg' and q.key == 1 for q in a0) and len(asany) == 1 and asany[0].qname == 'pie::trait_object::base::AsAny::as_any' and \
                            all(q.kind == 'arg' and q.key == 2 for q in b.orig_operand(asany[0].args[0])) and (c.self_ty or '').startswith('dyn ') and (asany[0].self_ty or '').startswith('dyn ')
                    elif c.qname == 'std::cmp::PartialEq::eq' and len(c.args) == 2 and (c.self_ty or '').lstrip('&').startswith('dyn ') and any(x in (c.self_ty or '') for x in DYN_OBJS):
                        # delegation to the equality of another trait-object view of the same values (itself an I2-eq instance)
                        a0 = through_upcasts(b, c.args[0])
                        a1 = through_upcasts(b, c.args[1])
                        good = bool(a0) and bool(a1) and all(q.kind == 'arg' and q.key == 1 for q in a0) and all(q.kind == 'arg' and q.key == 2 for q in a1)
            R.ob('I2-eq', b.path + '@' + b.impl_self, good and len(rets) == 1, 'equality of trait objects is eq_any(self, other.as_any()) on the unboxed values' if good
                 else 'dyn equality does not delegate to eq_any on the unboxed values', ctx.where(b), props=P)
        if b.impl_trait == 'std::hash::Hash' and b.name == 'hash' and dyn_self:
            n += 1
            cs = b.find_calls(lambda c: c.qname == 'pie::trait_object::base::HashObj::hash_obj')
            good = len(cs) == 1 and all(q.kind == 'arg' and q.key == 1 for q in b.orig_operand(cs[0].args[0])) and (cs[0].self_ty or '').startswith('dyn ')
            if not cs:
                hs = b.find_calls(lambda c: c.qname == 'std::hash::Hash::hash' and (c.self_ty or '').lstrip('&').startswith('dyn ') and any(x in (c.self_ty or '') for x in DYN_OBJS))
                good = len(hs) == 1 and bool(through_upcasts(b, hs[0].args[0])) and all(q.kind == 'arg' and q.key == 1 for q in through_upcasts(b, hs[0].args[0]))
            R.ob('I2-hash', b.path + '@' + b.impl_self, good, 'hashing a trait object hashes the concrete value' if good else 'dyn Hash does not delegate to hash_obj of the value', ctx.where(b), props=P)
    R.floor('I2', 'dyn PartialEq/Hash impls', n, 7, props=P)
    for b in F.bodies.values():
        if b.impl_trait == 'pie::trait_object::base::HashObj' and b.name == 'hash_obj':
            cs = b.find_calls(lambda c: c.qname == 'std::hash::Hash::hash')
            good = len(cs) == 1 and all(q.kind == 'arg' and q.key == 1 for q in b.orig_operand(cs[0].args[0]))
            R.ob('I2-hash-obj', b.path, good, 'hash_obj hashes self' if good else 'hash_obj does not hash self', ctx.where(b), props=P)
    # I3 Box pitfall
    n = 0
    bad_n = 0
    for b in F.bodies.values():
        if b.crate not in ('pie', 'dev_ext', 'dev_util'):
            continue
        for c in b.calls.values():
            if c.qname in PITFALL_METHODS:
                n += 1
                st = (c.self_ty or '').replace('&', '').strip()
                bad = st.startswith('std::boxed::Box<dyn') or st.startswith('std::rc::Rc<dyn') or st.startswith('std::sync::Arc<dyn')
                if bad:
                    bad_n += 1
                    R.ob('I3-receiver', b.path + '#' + c.name, False, '%s is called on a %s: it views/compares/hashes the box, not the value inside, so every downcast/comparison fails' % (c.name, c.self_ty),
                         ctx.where(b, c.bb), props=P)
        for blk in b.blocks:
            if blk['cleanup']:
                continue
            for s in blk['stmts']:
                if s['k'] == 'a' and s['rv']['k'] == 'cast' and 'Unsize' in s['rv']['ck']:
                    ty = b.fix(s['rv']['ty'])
                    if ty.startswith('&') and 'dyn ' in ty and any(x in ty for x in DYN_OBJS):
                        n += 1
                        op = F.operand(s['rv']['op'])
                        if op[0] in ('c', 'm') and not op[1][1]:
                            src = b.local_ty(op[1][0])
                            if re.match(r"&(mut )?std::boxed::Box<dyn ", src):
                                bad_n += 1
                                R.ob('I3-coercion', b.path + '#' + ty, False, 'a %s is coerced to %s: the trait object then wraps the Box, and downcasts to the boxed type fail' % (src, ty),
                                     '%s:%s %s' % (b.file, s.get('ln'), b.path), props=P)
    # I3-instantiation: a function that boxes-and-erases one of its type parameters (value of type P -> dyn object) must not be
    # instantiated with P = Box<_>: the erased object would have dynamic type Box<_>, a different identity than the value inside
    erasers = {}
    for b in F.bodies.values():
        if b.crate != 'pie' or b.kind not in ('AssocFn', 'Fn'):
            continue
        for blk in b.blocks:
            if blk['cleanup']:
                continue
            for s in blk['stmts']:
                if s['k'] == 'a' and s['rv']['k'] == 'cast' and 'Unsize' in s['rv']['ck']:
                    ty = b.fix(s['rv']['ty'])
                    if 'dyn ' in ty and any(x in ty for x in ('KeyObj', 'ValueObj', 'MapValueObj', 'std::any::Any')) and 'TaskObj' not in ty:
                        op = F.operand(s['rv']['op'])
                        if op[0] in ('c', 'm') and not op[1][1]:
                            src = b.local_ty(op[1][0])
                            mm = re.match(r"(?:std::boxed::Box<|&(?:mut )?)([A-Z][A-Za-z0-9_]*)>?$", src)
                            if mm and mm.group(1) in b.generics:
                                erasers.setdefault(b.id, set()).add(b.generics.index(mm.group(1)))
    for b in F.bodies.values():
        if b.crate not in ('pie', 'dev_ext') or b.is_test_code():
            continue
        for c in b.calls.values():
            if c.callee_id in erasers:
                cb = F.bodies.get(c.callee_id)
                own = [g_ for g_ in c.gargs]
                for idx in erasers[c.callee_id]:
                    # gargs of an inherent method = impl generics + method generics, in the order of `generics`
                    if idx < len(own) and re.match(r"&?(mut )?std::(boxed::Box|rc::Rc|sync::Arc)<", own[idx]):
                        bad_n += 1
                        R.ob('I3-instantiation', b.path + '#' + c.name, False, '%s erases its type parameter `%s` into a trait object, and is called here with that parameter = %s: the object gets the dynamic type of the '
                             'box, not of the value inside, so it never equals a key built from the value directly' % (cb.path if cb else c.qname, cb.generics[idx] if cb else idx, own[idx]), ctx.where(b, c.bb), props=P + ('C14',))
    R.ob('I3-summary', 'box-pitfall', bad_n == 0, 'none of %d as_any/eq_any/hash_obj calls and dyn coercions has a Box<dyn _> receiver/pointee' % n if bad_n == 0 else '%d Box<dyn _> pitfall site(s)' % bad_n, '', props=P)
    R.floor('I3', 'as_any/eq_any/hash_obj calls and dyn coercions', n, 30, props=P)
    # I4 get-or-create
    for role, mapf in (('get_or_create_task', getattr(roles, 'task_map_field', None)), ('get_or_create_resource', getattr(roles, 'resource_map_field', None))):
        b = getattr(roles, role)
        if b is None or mapf is None:
            R.missing('I4', role, 'not resolved', props=P)
            continue
        inf = ctx.infeasible(b)
        gets = [c for c in b.find_calls(lambda c: c.qname == 'std::collections::HashMap::get' and ctx.has_field(b.orig_operand(c.args[0]), mapf))]
        adds = [c for c in b.find_calls(lambda c: c.qname == DAG + 'add_node')]
        inss = [c for c in b.find_calls(lambda c: c.qname == 'std::collections::HashMap::insert' and ctx.has_field(b.orig_operand(c.args[0]), mapf))]
        good = len(gets) == 1 and len(adds) == 1 and len(inss) == 1
        why = 'expected one lookup, one node creation and one map insertion'
        if good:
            gt, ad, ins = gets[0], adds[0], inss[0]
            key_lookup = b.orig_operand(gt.args[1])
            key_insert = b.orig_operand(ins.args[1])
            if not (all(o.kind == 'arg' and o.key == 2 for o in key_lookup) and all(o.kind == 'arg' and o.key == 2 for o in key_insert)):
                good = False
                why = 'lookup key %s and insertion key %s are not both the given task/resource' % (b.describe_origins(key_lookup), b.describe_origins(key_insert))
            req = b.edges_required_for(ad.bb)
            if not any(gd.kind == 'enum' and gd.variants() == frozenset(['None']) and gt.bb in ctx.base_call_bbs(gd.origins) for gd in req):
                good = False
                why = 'a node is created without the lookup having failed'
            if b.must_after(ad.bb, ctx.both(inf, lambda x: x == ins.bb)) is not None:
                good = False
                why = 'a created node is not entered into the map on some path'
            vo = _through_newtype(b, F, b.orig_operand(ins.args[2]))
            if ctx.base_call_bbs(vo) != {ad.bb}:
                good = False
                why = 'the node entered into the map is not the node just created'
            rets = _through_newtype(b, F, b.orig_local(0))
            if not (ctx.base_call_bbs(rets) <= {ad.bb, gt.bb} and ctx.base_call_bbs(rets)):
                good = False
                why = 'the returned node is neither the found nor the created one'
            # the node data holds the same key
            do = b.orig_operand(ad.args[1])

            def carries(os_, depth=0):
                # the given key itself, an aggregate holding it, or a local constructor that is handed it (`NodeData::Task(TaskData::new(task))`)
                if not os_ or depth > 3:
                    return False
                if all(q.kind == 'arg' and q.key == 2 for q in os_):
                    return True
                for q in os_:
                    if q.kind == 'aggr' and not q.path:
                        rv_ = b.blocks[q.key[0]]['stmts'][q.key[1]]['rv']
                        if any(carries(b.orig_operand(F.operand(x)), depth + 1) for x in rv_['ops']):
                            return True
                    elif q.kind == 'call' and not q.path and q.key in b.calls and F.callee_body(b.calls[q.key]) is not None and F.callee_body(b.calls[q.key]).crate == 'pie':
                        if any(carries(b.orig_operand(a), depth + 1) for a in b.calls[q.key].args):
                            return True
                return False
            ok_data = False
            for o in do:
                if o.kind == 'aggr':
                    rv = b.blocks[o.key[0]]['stmts'][o.key[1]]['rv']
                    for x in rv['ops']:
                        if carries(b.orig_operand(F.operand(x))):
                            ok_data = True
            if not ok_data:
                good = False
                why = 'the node created does not carry the given task/resource'
        R.ob('I4-get-or-create', b.path, good, 'lookup and insertion use the same key; a node is created only when the lookup fails and is the one mapped and returned' if good else why, ctx.where(b), props=P)
    # I5 key types
    tk = getattr(roles, 'task_map_key', '') or ''
    rk = getattr(roles, 'resource_map_key', '') or ''
    good = 'Box<dyn pie::trait_object::task::TaskObj' in tk and 'Box<dyn pie::trait_object::KeyObj' in rk
    R.ob('I5-map-keys', 'Store maps', good, 'the store maps are keyed by boxed trait objects whose Eq/Hash are the rules above' if good else 'store map key types: %s / %s' % (tk, rk), '', props=P)


def _through_newtype(b, F, origins):
    """look through single-field tuple-struct constructors (TaskNode(node))"""
    out = set()
    for o in origins:
        if o.kind == 'aggr' and not o.path:
            rv = b.blocks[o.key[0]]['stmts'][o.key[1]]['rv']
            if len(rv['ops']) == 1 and 'adt' in rv['ak']:
                out |= set(_through_newtype(b, F, b.orig_operand(F.operand(rv['ops'][0]))))
                continue
        out.add(o)
    return frozenset(out)


# ================================================================================================
# C14
# ================================================================================================

TAM = 'pie::trait_object::collection::TypeToAnyMap'


def rule_map(ctx):
    R, F = ctx.R, ctx.F
    P = ('C14',)
    # M1
    fw = [b for b in F.bodies.values() if b.impl_trait == 'pie::ResourceState' and b.impl_self == TAM and b.kind == 'AssocFn']
    R.floor('M1', 'ResourceState forwards', len(fw), 8, props=P)
    for b in fw:
        cs = [c for c in b.calls.values() if c.qname == TAM + '::' + b.name]
        good = len(cs) == 1 and cs[0].gargs and cs[0].gargs[0] == 'R'
        why = 'does not forward to TypeToAnyMap::%s::<R, ..>' % b.name
        if good:
            c = cs[0]
            extra = [x for x in c.gargs[1:] if not x.startswith("'")]
            own = [x for x in b.generics if x not in ('R',) and not x.startswith("'")]
            if extra != own:
                good = False
                why = 'forwards with type arguments %s, expected [R, %s]' % (c.gargs, ', '.join(own))
            if not params_in_order(b, c, 0, 1):
                good = False
                why = 'arguments not forwarded in order'
            if ctx.base_call_bbs(b.orig_local(0)) not in ({c.bb}, set()) and b.local_ty(0) != '()':
                good = False
                why = 'result not returned'
        R.ob('M1-forward', b.path, good, 'state access for resource type R is keyed by R' if good else why, ctx.where(b), props=P)
    # M2
    inh = [b for b in F.bodies.values() if b.impl_self == TAM and not b.impl_trait and b.kind == 'AssocFn']
    n = 0
    for b in inh:
        tids = [c for x in F.with_closures(b) for c in x.calls.values() if c.qname == 'std::any::TypeId::of']
        fwd = [c for c in b.calls.values() if c.qname.startswith(TAM + '::')]
        first = b.generics[0] if b.generics else None
        if tids:
            n += 1
            good = all(c.gargs and c.gargs[0] == first for c in tids)
            R.ob('M2-typeid', b.path, good, 'keyed by TypeId::of::<%s>() of its first type parameter' % first if good else 'keyed by TypeId::of::<%s>' % [c.gargs for c in tids], ctx.where(b), props=P)
        for c in fwd:
            n += 1
            good = bool(c.gargs) and c.gargs[0] == first
            R.ob('M2-forward', b.path + '->' + c.name, good, 'forwards with its key type first' if good else 'forwards with type arguments %s' % c.gargs, ctx.where(b, c.bb), props=P)
    R.floor('M2', 'TypeToAnyMap accessors', n, 9, props=P)
    adt = F.adts.get(TAM)
    kt = adt['variants'][0]['fields'][0]['ty'] if adt else ''
    good = kt.replace(' ', '').startswith('std::collections::HashMap<std::any::TypeId,')
    R.ob('M2-key-type', TAM, good, 'typed state is keyed by std::any::TypeId (unique per type)' if good else 'typed state is keyed by %s: distinct types can collide' % kt[:80], '', props=P)
    # M3: an existing state value is replaced only when its type differs; a missing one is created
    ens = [b for b in inh if any(c.name in ('and_modify', 'entry') for c in b.calls.values())]
    for b in ens:
        vty = b.generics[1] if len(b.generics) > 1 else None
        repl = []  # (body, block) of replacement operations
        # a named function handed to `and_modify` / `or_insert_with` stands where a closure would: its first parameter is the stored value
        import flatten as _fl
        fn_items = {}  # body id -> name of its type parameter that is instantiated with the requested value type
        for c in b.calls.values():
            if c.name in ('and_modify', 'or_insert_with') and len(c.args) > 1:
                raw = b.blocks[c.bb]['term']['args'][1]
                fb, kind = _fl._callable_of(F, b.d, raw)
                if fb is not None and kind == 'fn':
                    ga = [b.fix(g_) for g_ in raw['k']['fn'].get('gargs', [])]
                    fn_items[fb.id] = next((fb.generics[i] for i, g_ in enumerate(ga) if g_ == vty and i < len(fb.generics)), vty)
        xs = list(F.with_closures(b)) + [F.bodies[i] for i in fn_items]
        vty_of = lambda x: fn_items.get(x.id, vty)
        for x in xs:
            if x.kind == 'Closure' or x.id in fn_items:
                val_arg = 2 if x.kind == 'Closure' else 1
                for (bb, si, pl, rv, ln) in x.stores:
                    if all(o.kind == 'arg' and o.key == val_arg for o in x.orig_local(pl[0])):
                        repl.append((x, bb))
            else:
                # `let v = occupied.into_mut(); ... *v = new` (also get_mut): a store through the reference into the occupied slot
                for (bb, si, pl, rv, ln) in x.stores:
                    if any(o.kind == 'call' and x.calls[o.key].name in ('into_mut', 'get_mut') and 'OccupiedEntry' in (x.calls[o.key].impl_self or '') for o in x.orig_local(pl[0])):
                        repl.append((x, bb))
                    # `if let Some(v) = map.get_mut(&id) { if !v.is::<V>() { *v = new } }` before the entry chain: a store into the found slot
                    elif any(o.kind == 'call' and x.calls[o.key].qname == 'std::collections::HashMap::get_mut' for o in x.orig_local(pl[0])):
                        repl.append((x, bb))
            for c in x.calls.values():
                if c.name == 'insert' and 'OccupiedEntry' in (c.impl_self or ''):
                    repl.append((x, c.bb))
        good = bool(repl)
        why = 'no replacement of an existing value found'
        for x, bb in repl:
            req = x.edges_required_for(bb)
            ok_guard = any(gd.kind == 'bool' and gd.truth() is False and any(sc.name == 'is' and sc.gargs and sc.gargs[-1] == vty_of(x) for sc in gd.subject_calls()) for gd in req)
            if not ok_guard:
                good = False
                why = 'an existing value is replaced without testing that its type differs from the requested one'
        R.ob('M3-replace', b.path, good, 'an existing state value is replaced only if it is not of the requested type' if good else why, ctx.where(b), props=P)
        oi = [c for x in F.with_closures(b) for c in x.calls.values() if c.name in ('or_insert_with', 'or_insert', 'or_default') or (c.name == 'insert' and 'VacantEntry' in (c.impl_self or ''))]
        R.ob('M3-vacant', b.path, bool(oi), 'a missing state value is created' if oi else 'vacant entry not filled', ctx.where(b), props=P)
        ty_is = [c for x in xs for c in x.calls.values() if c.name == 'is']
        pit = [c for c in ty_is if 'Box<' in (c.self_ty or '')]
        R.ob('M3-unboxed', b.path, not pit and bool(ty_is), 'the type test looks at the value inside the box' if not pit and ty_is else 'type test missing or applied to the Box itself', ctx.where(b), props=P)
    # the same helper without the entry API: `if !(map.get(id) is Some(v) && v.is::<V>()) { map.insert(id, default) }; map.get_mut(id)`
    ens2 = [b for b in inh if b not in ens and any(c.qname == 'std::collections::HashMap::insert' for c in b.calls.values())
            and any(c.name == 'is' and 'Any' in c.qname for x in F.with_closures(b) for c in x.calls.values())]
    from rules_protocol import guard_edges_on_call as _geoc
    for b in ens2:
        vty = b.generics[1] if len(b.generics) > 1 else None
        inf = ctx.infeasible(b)
        ins = [c for c in b.calls.values() if c.qname == 'std::collections::HashMap::insert' and not b.blocks[c.bb]['cleanup']]
        iss = [c for c in b.calls.values() if c.name == 'is' and 'Any' in c.qname and c.gargs and c.gargs[-1] == vty]
        gets = [c for c in b.calls.values() if c.qname == 'std::collections::HashMap::get']
        is_false = {n for c in iss for n, g in _geoc(b, c) if g.truth() is False}
        get_none = {n for c in gets for n, g in _geoc(b, c) if g.variants() == frozenset(['None'])}
        ib = {c.bb for c in ins}
        seen = b.reach([0], avoid=ctx.both(inf, lambda n: n in is_false or n in get_none))
        good = bool(ins) and bool(iss) and bool(is_false) and not any(x in seen for x in ib)
        R.ob('M3-replace', b.path, good, 'an existing state value is replaced only if it is not of the requested type' if good
             else 'the stored value can be replaced although it has the requested type (or the type test could not be related to the insertion)', ctx.where(b), props=P)

        def always_inserts(edges):
            for e in edges:
                s_ = b.reach([e], avoid=ctx.both(inf, lambda n: n in ib))
                if any(r in s_ for r in b.returns()):
                    return False
            return bool(edges)
        R.ob('M3-vacant', b.path, always_inserts(get_none), 'a missing state value is created' if always_inserts(get_none) else 'a missing state value is not created on some path', ctx.where(b), props=P)
        R.ob('M3-wrong-type', b.path, always_inserts(is_false), 'a stored value of another type is replaced' if always_inserts(is_false) else 'a stored value of another type can be handed out', ctx.where(b), props=P)
        pit = [c for c in iss if 'Box<' in (c.self_ty or '')]
        R.ob('M3-unboxed', b.path, not pit and bool(iss), 'the type test looks at the value inside the box' if not pit and iss else 'type test missing or applied to the Box itself', ctx.where(b), props=P)
    R.floor('M3', 'ensure-inserted helper', len(ens) + len(ens2), 1, props=P)
    # M4 / M5
    rw = [b for b in F.bodies.values() if b.impl_trait == 'pie::Resource' and b.impl_self == 'K' and b.crate == 'pie' and b.kind == 'AssocFn' and 'resource::map' in b.id]
    R.floor('M4', 'MapKey resource read/write', len(rw), 2, props=P)
    gg = [b for b in F.bodies.values() if b.impl_trait == 'pie::resource::map::GetGlobalMap' and b.kind == 'AssocFn']
    for b in gg:
        cs = [c for c in b.calls.values() if c.qname in ('pie::ResourceState::get_or_set_default', 'pie::ResourceState::get_or_set_default_mut')]
        good = len(cs) == 1 and any(x.replace(' ', '') == 'std::collections::HashMap<K,<KasMapKey>::Value>'.replace('MapKey', 'pie::resource::map::MapKey') for x in cs[0].gargs) and 'K' in cs[0].gargs
        R.ob('M4-state-type', b.path, good, 'the state of key type K is HashMap<K, K::Value>, fetched through ResourceState<K>' if good else 'global map fetched with type arguments %s' % (cs[0].gargs if cs else None), ctx.where(b), props=P)
    for b in rw:
        if b.name == 'read':
            gets = [c for c in b.calls.values() if c.qname == 'std::collections::HashMap::get']
            good = len(gets) == 1 and all(o.kind == 'arg' and o.key == 1 for o in b.orig_operand(gets[0].args[1]))
            R.ob('M4-read', b.path, good, 'read looks up the key itself' if good else 'read looks up something other than self', ctx.where(b), props=P)
        else:
            good = False
            for d in b.defs.values():
                for x in d:
                    if x[0] == 'stmt' and x[3]['k'] == 'aggr' and 'MapWriter' in x[3]['ak'].get('adt', ''):
                        adt = F.adts.get('pie::resource::map::MapWriter')
                        names = [f['name'] for f in adt['variants'][0]['fields']] if adt else []
                        for nm, op in zip(names, x[3]['ops']):
                            if nm == 'key':
                                good = all(o.kind == 'arg' and o.key == 1 for o in b.orig_operand(F.operand(op)))
            R.ob('M4-write', b.path, good, 'the writer is bound to the key itself' if good else 'the writer is bound to another key', ctx.where(b), props=P)
    mw = [b for b in F.bodies.values() if b.impl_self and type_head(b.impl_self) == 'pie::resource::map::MapWriter' and b.kind == 'AssocFn' and not b.impl_trait]
    R.floor('M5', 'MapWriter methods', len(mw), 4, props=P)
    for b in mw:
        cs = [c for c in b.calls.values() if type_head(c.impl_self or '') == 'std::collections::HashMap']
        good = len(cs) == 1 and len(cs[0].args) > 1 and ctx.has_field(b.orig_operand(cs[0].args[0]), 'map') and ctx.has_field(b.orig_operand(cs[0].args[1]), 'key') and cs[0].name == {'entry': 'entry'}.get(b.name, b.name)
        R.ob('M5-own-key', b.path, good, 'MapWriter::%s addresses the writer\'s own key in its map' % b.name if good else 'MapWriter::%s does not address self.key with the same-named map operation' % b.name, ctx.where(b), props=P)
    # M6: the map checker, decided by finite-domain evaluation (as for C12): the value under the key is None / Some(x) / Some(y); every stamp
    # route must return exactly the current value, and check must answer "consistent" iff the current value equals the stamped one
    import absint
    mc = [b for b in F.bodies.values() if b.impl_trait == 'pie::ResourceChecker' and b.impl_self == 'pie::resource::map::MapEqualsChecker' and b.kind == 'AssocFn']
    KEY, STATE, WRITER, SELF = ('atom', 'key'), ('atom', 'state'), ('atom', 'writer'), ('atom', 'checker')

    def world(cur):
        def extern(call, argv):
            if call.qname == 'pie::Resource::read' and len(argv) == 2 and argv[0] == KEY and argv[1] == STATE:
                return ('res', 'Ok', cur)
            if call.name == 'get' and 'MapWriter' in (call.impl_self or '') and argv and argv[0] == WRITER:
                return cur
            if call.qname == 'std::collections::HashMap::get':
                raise absint.Undecided('direct map access in the checker')
            return None
        return extern
    curs = [('opt', None), ('opt', ('atom', 'x')), ('opt', ('atom', 'y'))]
    for b in mc:
        if b.name in ('stamp', 'stamp_reader', 'stamp_writer'):
            good, why, st = True, '', None
            for cur in curs[:2]:
                args = {'stamp': [SELF, KEY, STATE], 'stamp_reader': [SELF, KEY, cur], 'stamp_writer': [SELF, KEY, WRITER]}[b.name]
                try:
                    r = absint.evaluate(F, b, args, extern=world(cur))
                except absint.Undecided as e:
                    good, why, st = False, 'UNDECIDED: %s' % e, 'UNDECIDED'
                    break
                if r != ('res', 'Ok', cur):
                    good, why = False, '%s does not stamp the current value of the key: with %s stored it returns %s' % (b.name, 'nothing' if cur[1] is None else 'a value', r)
                    break
            R.ob('M6-route', b.path, good, '%s returns exactly the value currently stored under the key (or None)' % b.name if good else why, ctx.where(b), props=P, status=st)
        elif b.name == 'check':
            good, why, st = True, '', None
            for cur in curs:
                for stamp in curs[:2]:
                    try:
                        r = absint.evaluate(F, b, [SELF, KEY, STATE, stamp], extern=world(cur))
                    except absint.Undecided as e:
                        good, why, st = False, 'UNDECIDED: %s' % e, 'UNDECIDED'
                        break
                    same = absint.v_eq(cur, stamp)
                    consistent = r[0] == 'res' and r[1] == 'Ok' and r[2] == ('opt', None)
                    reported = r[0] == 'res' and r[1] == 'Ok' and r[2][0] == 'opt' and r[2][1] is not None
                    if not (consistent or reported) or consistent != same:
                        good = False
                        why = 'check answers %s for current=%s stamp=%s (must be consistent exactly when they are equal)' % ('consistent' if consistent else r, cur, stamp)
                        break
                if not good:
                    break
            R.ob('M6-check', b.path, good, 'inconsistent exactly when the current value differs from the stamped one (6 cases evaluated)' if good else why, ctx.where(b), props=P, status=st)
    R.floor('M6', 'MapEqualsChecker methods', len(mc), 4, props=P)


# ================================================================================================
# C16
# ================================================================================================

HASH_HEADS = ('std::collections::HashMap', 'std::collections::HashSet')
ORDER_LEAKS = ('iter', 'iter_mut', 'keys', 'values', 'values_mut', 'into_keys', 'into_values', 'drain', 'retain', 'extract_if', 'difference', 'union',
               'intersection', 'symmetric_difference', 'into_iter')
NONDET_PREFIXES = ('std::time::SystemTime::now', 'std::time::Instant::now', 'std::thread::', 'std::env::', 'rand::', 'std::process::id',
                   'std::collections::hash_map::RandomState::new', 'std::hash::RandomState::new', 'std::hash::BuildHasher::hash_one', 'std::ptr::addr')


def _is_hash_ty(t):
    t = t.replace('&mut ', '').replace('&', '').strip()
    return type_head(t) in HASH_HEADS


def order_leak_sites(ctx, crates=('pie', 'pie_graph')):
    F = ctx.F
    out = []
    for b in F.bodies.values():
        if b.crate not in crates or b.is_test_code():
            continue
        if b.d.get('from_expansion') and b.impl_trait in ('std::fmt::Debug',):
            continue
        for c in b.calls.values():
            if b.blocks[c.bb]['cleanup']:
                continue
            leak = False
            if c.impl_self and type_head(c.impl_self) in HASH_HEADS and c.name in ORDER_LEAKS:
                leak = True
            elif c.qname == 'std::iter::IntoIterator::into_iter' and c.self_ty and _is_hash_ty(c.self_ty):
                leak = True
            elif c.qname in ('std::iter::Extend::extend', 'std::iter::FromIterator::from_iter') and len(c.gargs) > 1 and any(_is_hash_ty(x) for x in c.gargs[2:3]):
                leak = True
            elif c.qname == 'std::fmt::Debug::fmt' and c.self_ty and _is_hash_ty(c.self_ty) and not b.d.get('from_expansion'):
                leak = True
            elif F.callee_body(c) is not None and F.callee_body(c).crate in crates and any(_is_hash_ty(x) for x in c.gargs):
                # a seeded hash container handed to a local function as the value of a generic parameter (`fn schedule(tasks: impl IntoIterator<..>)`):
                # whatever that function iterates, it iterates in hash order - the order escapes through the call
                cb_ = F.callee_body(c)
                gens = list(cb_.generics)
                if any(_is_hash_ty(x) and i < len(gens) and not gens[i].startswith("'") for i, x in enumerate(c.gargs)) and any(
                        a[0] in ('c', 'm') and _is_hash_ty(b.local_ty(a[1][0]).lstrip('&').replace('mut ', '', 1)) for a in c.args):
                    leak = True
            if leak:
                out.append((b, c))
    return out


def order_site_sanitised(ctx, b, c):
    """Is the order produced at call c (a hash-container iteration) destroyed by a sort before any other use?"""
    ok = False
    why = 'iteration order of a seeded hash container flows into the build'
    # follow the value forward: (adaptors)* -> collect into Vec -> every use of the Vec dominated by a sort of it
    ADAPT = ('std::iter::Iterator::map', 'std::iter::IntoIterator::into_iter', 'std::iter::Iterator::cloned', 'std::iter::Iterator::copied')
    if c.dest[1]:
        uses = []
    else:
        uses = b.forward_calls(c.dest[0], through=ADAPT)
    colls = [u for u, _ in uses if u.qname == 'std::iter::Iterator::collect' and len(u.gargs) > 1 and u.gargs[1].startswith('std::vec::Vec<')]
    other = [u for u, _ in uses if u.qname not in ADAPT and u.qname != 'std::iter::Iterator::collect']
    if other or not uses:
        why = 'the unordered iterator is consumed by %s' % (other[0].qname if other else 'nothing recognised')
    elif len(colls) == 1 and not colls[0].dest[1]:
        col = colls[0]
        vuses = [u for u, _ in b.forward_calls(col.dest[0], through=('std::ops::DerefMut::deref_mut', 'std::ops::Deref::deref'))]
        sorts = [u for u in vuses if u.qname.startswith('core::slice::sort')]
        non = [u for u in vuses if not u.qname.startswith('core::slice::sort') and u.qname not in ('std::ops::DerefMut::deref_mut', 'std::ops::Deref::deref')]
        if sorts:
            sb = {s_.bb for s_ in sorts}
            ok = all(b.must_before(u.bb, lambda n: n in sb) is None for u in non)
            why = '' if ok else 'the collected vector is used before it is sorted'
        else:
            why = 'the collected vector is never sorted'
    else:
        why = 'the unordered iterator is collected into %s' % [u.gargs[1:2] for u, _ in uses if u.qname == 'std::iter::Iterator::collect']
    return ok, why


def rule_determinism(ctx):
    R, F = ctx.R, ctx.F
    P = ('C16',)
    sites = order_leak_sites(ctx)
    for b, c in sites:
        ok, why = order_site_sanitised(ctx, b, c)
        R.ob('N1-order-taint', b.path + '#' + c.name + '@' + (c.impl_self or c.self_ty or '')[:40] + '#' + b.describe_origins(b.orig_operand(c.args[0])) if c.args else '', ok,
             'hash-set order is erased by sorting on unique ranks before any other use' if ok else '%s: %s' % (c.qname, why), ctx.where(b, c.bb), props=P)
    R.floor('N1', 'order-producing uses of hash containers (all sanitised)', len(sites), 2, props=P)
    # N2 other sources
    n = 0
    for b in F.bodies.values():
        if b.crate not in ('pie', 'pie_graph') or b.is_test_code():
            continue
        for c in b.calls.values():
            n += 1
            if any(c.qname.startswith(p) for p in NONDET_PREFIXES):
                R.ob('N2-source', b.path + '#' + c.qname, False, 'call of %s in the core: a source of run-to-run variation' % c.qname, ctx.where(b, c.bb), props=P)
        for blk in b.blocks:
            for s in blk['stmts']:
                if s['k'] == 'a' and s['rv']['k'] == 'cast' and 'PointerExposeProvenance' in s['rv']['ck']:
                    R.ob('N2-ptr-cast', b.path, False, 'a pointer is cast to an integer: allocation addresses can leak into behaviour', '%s:%s' % (b.file, s.get('ln')), props=P)
    R.ob('N2-summary', 'core', True, '%d call sites scanned for clock/thread/env/random/address sources' % n, '', props=P)
    # N3: every sort in the core has a key/comparator that was decided (queue, reorder)
    for b in F.bodies.values():
        if b.crate not in ('pie', 'pie_graph') or b.is_test_code():
            continue
        for c in b.find_calls(lambda c: c.qname.startswith('core::slice::sort')):
            # a sort whose key / comparator was decided by its own rule: Q1-comparator (the queue) or N3-sort-key (the reordering step)
            known = any(o['ok'] and o['rule'] in ('Q1-comparator', 'N3-sort-key') and (o['key'] == b.path or o['key'].startswith(b.path + '#')) for o in R.obs)
            elem = c.gargs[0] if c.gargs else ''
            # a plain sort of values with an intrinsic total order is deterministic whatever order they arrived in
            plain = c.qname in ('core::slice::sort', 'core::slice::sort_unstable') and elem in ('u8', 'u16', 'u32', 'u64', 'u128', 'usize', 'i8', 'i16', 'i32', 'i64', 'i128', 'isize', 'char', 'bool',
                                                                                               'std::string::String', '&str', 'std::ffi::OsString', 'std::path::PathBuf', 'std::vec::Vec<u8>', '&[u8]',
                                                                                               'std::boxed::Box<str>', 'std::boxed::Box<[u8]>')
            R.ob('N3-sorts', b.path + '#' + c.name, known or plain, 'sort over unique ranks' if known or plain else 'sort %s over %s is not one of the analysed rank sorts' % (c.qname, elem), ctx.where(b, c.bb), props=P)
