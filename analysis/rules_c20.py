"""C20 — incremental builds abort only for violations that exist now.

Two structural clauses are decided here (both necessary conditions of C20; the behaviour as a whole is not decided):

S20-unvalidated-edges  Every query whose answer can abort a build (the cycle search behind the reserved require edge,
    the recorded-writer query, the recorded-readers query) consults the edges of *all* known tasks. An edge of a task
    that has not been validated (checked or re-executed) in the current session describes what that task did in an
    earlier state. For C20 to hold, such a query must disregard edges whose owner is not yet consistent in this
    session (a membership test in the session's consistent set on the owner), or be deferred until it is. Where it
    does not, a role change between two violation-free states aborts the incremental build although a from-scratch
    build returns (demonstrated against the real code: findings/role_inversion_demo.rs, one history per site).

A20-abort-guarded  Inside the functions that diagnose the three violations, every explicit abort is reachable only
    through the edge on which the diagnostic query reported the violation (recorded writer = Some, reachability test
    = false, reserved edge = Err): no abort without a diagnosis.

The exactness of the diagnosis itself (query variants, argument orientation, reset of re-executed tasks, graph search
tables, rollback of a rejected edge) is decided by rules of C05-C08/C10/C11, which are additionally tagged C20 by the
table ALSO_C20 below (one reason per entry).
"""
from core import type_head
from rules_protocol import guard_edges_on_call, reaches_exec  # noqa: F401
from rules_crash import is_callee, ancestors, owner_validated as _owner_validated  # noqa: F401

P = ('C20',)

# rule id -> why breaking it breaks C20 (an abort for a violation that does not exist in the current state)
ALSO_C20 = {
    'EXEC-1': 'a re-executed task whose old edges were not dropped collides with itself (overlap) or with edges it no longer creates',
    'EXEC-2a': 'edges recorded while the wrong task is marked executing are attributed to a task that never created them',
    'EXEC-2b': 'after a nested execution the outer task must be the executing one again, else its edges go to the wrong source',
    'STORE-reset-edges': 'reset is the only place where edges of an earlier state are dropped; partial removal leaves edges that no longer exist',
    'REQ-reserve': 'the reserved edge must be the edge src -> dst of the require in progress',
    'REQ-dst-node': 'the edge must point at the node of the task that was required',
    'OPS-dst-node': 'the validation must ask about the node of the resource being operated on',
    'STORE-writer-of': 'a recorded-writer query selecting more than Write edges reports writers that do not exist',
    'STORE-readers-of': 'a recorded-readers query selecting more than Read edges reports readers that do not exist',
    'STORE-trans_req-args': 'a reversed reachability question reports a missing dependency that exists',
    'STORE-trans_req-ret': 'the answer of the graph must not be altered',
    'STORE-add-args': 'the edge added must be src -> dst, else the cycle search answers for another pair',
    'VAL-readers-guard-src': 'orientation of the reachability test on the writing side',
    'VAL-writer-guard': 'orientation / polarity of the test on the reading side and of the overlap test',
    'C07G-forward-args': 'the cycle search must start at dst and be bounded by rank(src); any other start reports cycles that do not exist',
    'C10-dfs-table': 'CycleDetected exactly when a neighbour rank equals the bound (= src reached)',
    'C10-dfs-side': 'the forward search must follow children edges only',
    'C10-window': 'the search runs exactly when the new edge points backwards',
    'G1-typestate': 'a rejected edge must be rolled back from all three encodings, else the phantom edge makes later cycle searches fail',
    'E5-hit': 'the reachability query answers true exactly when dst is found',
    'E5-start': 'the reachability search starts at src',
    'E5-expand': 'the reachability search follows children of the popped node',
    'E5-scratch': 'stale scratch entries change reachability answers',
    # order of validation: a task must not run (and have its operations validated) before the scheduled / recorded dependencies in front of
    # it were brought up to date - their edges of the earlier state are dropped only when they re-execute
    'Q1-sort-always': 'bottom-up: a stale queue order executes a task before a scheduled task it depends on, whose old edges are then consulted',
    'Q1-side': 'bottom-up: selecting from the wrong end of the sorted queue executes dependants first',
    'Q1-comparator': 'bottom-up: reversed comparator executes dependants first',
    'Q4-orientation': 'bottom-up: require-now must run the scheduled tasks the required task depends on',
    # a task is reused only if every recorded dependency was found consistent: a task reused although a dependency is inconsistent (or its
    # check failed) keeps the edges of the earlier state, and a later role change aborts on them (seeded C20_6: check errors read as consistent)
    'VERDICT-origin': 'the verdict on a resource dependency must be the checker\'s answer; anything else reuses tasks whose edges describe an earlier state',
    'VERDICT-err-propagates': 'a failed check must not read as consistent: the task would be reused with its edges of the earlier state',
    'TD-check-verdict-tested': 'top-down: the verdict of every dependency check decides between reuse and re-execution',
    'TD-check-all-deps': 'top-down: a dependency that is never checked lets a stale task (and its edges) be reused',
    'TD-reuse-guarded': 'top-down: reuse only behind a check that found every dependency consistent',
    'BU-S3-neg-err': 'bottom-up: a failed check schedules the task; otherwise its edges of the earlier state survive the build',
    'BU-S3-neg-false': 'bottom-up: an inconsistent dependency schedules the task; otherwise its edges of the earlier state survive the build',
    'TD-check-neg-exit': 'top-down: validation must stop at the first inconsistent dependency; going on makes later (possibly no longer required) tasks consistent '
                         'while the checked task still owns its edges of the earlier state',
}


def retag(R):
    for o in R.obs:
        if o['rule'] in ALSO_C20 and 'C20' not in o['props']:
            o['props'] = tuple(sorted(set(o['props']) | {'C20'}))


def _sites(ctx):
    """(body, call, kind) for every abort-capable validation query outside the store."""
    F, roles = ctx.F, ctx.roles
    out = []
    for b in F.bodies.values():
        if b.crate != 'pie' or b.is_test_code() or (b.impl_self and type_head(b.impl_self) == roles.store_adt):
            continue
        for c in b.calls.values():
            if b.blocks[c.bb]['cleanup']:
                continue
            q = roles.query_of_call(c)
            if q is not None and (roles.is_writer_of(q) or roles.is_readers_of(q)):
                out.append((b, c, 'recorded-writer' if roles.is_writer_of(q) else 'recorded-readers'))
            elif is_callee(ctx, c, roles.add_dep) and ctx.dep_variants(b, c.args[3]) == {'ReservedRequire'}:
                out.append((b, c, 'cycle-search'))
    return out


def _explicit_aborts(b):
    """blocks whose terminator is an explicit panic (panic!/unreachable!/assert! expansions), not an unwrap of a Result"""
    out = []
    for bb, blk in enumerate(b.blocks):
        if blk['cleanup'] or not b.is_diverging_block(bb):
            continue
        c = b.call_at(bb)
        if c is not None and c.qname.split('::')[-1] in ('panic_fmt', 'panic', 'begin_panic', 'panic_display', 'panic_explicit', 'panic_str', 'panic_nounwind'):
            out.append(bb)
    return out


def rule_c20(ctx):
    R, F, roles = ctx.R, ctx.F, ctx.roles
    sites = _sites(ctx)
    R.floor('S20-unvalidated-edges', 'validation queries that can abort a build', len(sites), 4, props=P)
    hr = getattr(ctx, 'ev_hr', None)
    per_body = {}
    for b, c, kind in sites:
        per_body.setdefault(b.id, (b, []))[1].append((c, kind))
        ok = _owner_validated(ctx, b)
        side = ''
        if kind == 'recorded-writer':
            side = '/reading-side' if (hr is not None and hr.match(b, c.bb) is not None) else '/writing-side'
        elif kind == 'recorded-readers':
            side = '/writing-side'
        R.ob('S20-unvalidated-edges', kind + side, ok,
             'edges of tasks not yet validated in this session cannot make this query abort the build' if ok else
             'the %s query consults the edges of every known task, including tasks not yet validated in this session whose edges describe an earlier state; '
             'a role change between two violation-free states aborts the incremental build although a from-scratch build returns' % kind,
             ctx.where(b, c.bb), props=P)
    # A20: no abort without a diagnosis
    n = 0
    for b, cs in per_body.values():
        inf = ctx.infeasible(b)
        viol = set()
        for c, kind in cs:
            if kind == 'cycle-search':
                viol |= {nd for nd, g in guard_edges_on_call(b, c) if g.variants() is not None and 'Err' in g.variants() and 'Ok' not in g.variants()}
            elif kind == 'recorded-writer':
                ts = [t for t in b.find_calls(lambda t: F.callee_body(t) is not None and F.callee_body(t).id == roles.trans_req.id)
                      if c.bb in ctx.base_call_bbs(b.orig_operand(t.args[2])) or c.bb in ctx.base_call_bbs(b.orig_operand(t.args[1]))]
                if ts:  # reading side: the violation is "no transitive dependency on the recorded writer"
                    for t in ts:
                        viol |= {nd for nd, g in guard_edges_on_call(b, t) if g.truth() is False}
                else:   # overlap: the violation is "a writer is recorded" (the filter form keeps only writers other than the current task)
                    subj = [c] + b.find_calls(lambda f: f.qname == 'std::option::Option::filter' and c.bb in ctx.base_call_bbs(b.orig_operand(f.args[0])))
                    for s in subj:
                        viol |= {nd for nd, g in guard_edges_on_call(b, s) if g.variants() is not None and 'Some' in g.variants() and 'None' not in g.variants()}
            else:  # recorded-readers: the violation is "a reader without a transitive dependency on the writer"
                for t in b.find_calls(lambda t: F.callee_body(t) is not None and F.callee_body(t).id == roles.trans_req.id):
                    viol |= {nd for nd, g in guard_edges_on_call(b, t) if g.truth() is False}
                # the same test inside an iterator adaptor over the readers (find / position: Some, any: true, all: false); that the closure
                # really is the negated reachability test is VAL-readers-guard's obligation
                for fc in b.find_calls(lambda f: f.qname.startswith('std::iter::Iterator::') and f.args and c.bb in ctx.base_call_bbs(b.orig_operand(f.args[0]))):
                    nm = fc.qname.split('::')[-1]
                    for nd, g in guard_edges_on_call(b, fc):
                        if (nm in ('find', 'position', 'find_map') and g.variants() == frozenset(['Some'])) or (nm == 'any' and g.truth() is True) or (nm == 'all' and g.truth() is False):
                            viol.add(nd)
        aborts = _explicit_aborts(b)
        seen = b.reach([0], avoid=ctx.both(inf, lambda x: x in viol))
        for bb in aborts:
            n += 1
            ok = bb not in seen
            R.ob('A20-abort-guarded', '%s#%d' % (b.path, aborts.index(bb)), ok,
                 'the abort is reachable only through the edge on which the diagnostic query reported the violation' if ok else
                 'an abort in a validation function is reachable without the diagnostic query having reported a violation:\n' + b.fmt_path(b.witness(seen, bb)),
                 ctx.where(b, bb), props=P)
    R.floor('A20-abort-guarded', 'explicit aborts in the validation functions', n, 4, props=P)
    retag(R)
