"""Fact extraction: runs the pie-facts driver (E1) over a checkout of Gohla/pie under
`cargo +nightly check` and caches the resulting JSON by a hash of the checkout's sources.

Nothing of pie is executed; `cargo check` only type-checks and the driver dumps MIR.
"""
import fcntl
import hashlib
import json
import os
import shutil
import subprocess
import sys
import tempfile
import time

VERIF = os.path.dirname(os.path.dirname(os.path.abspath(__file__)))
DRIVER_DIR = os.path.join(VERIF, 'driver')
DRIVER = os.path.join(DRIVER_DIR, 'target', 'release', 'pie-facts')
CACHE = os.path.join(VERIF, '.cache')

MEMBERS = ['pie', 'pie_graph', 'dev_ext', 'dev_util', 'engine_fixture']

# name -> (cargo args, member crates expected in the output)
CONFIGS = {
    # quick tier: what a normal build of the workspace compiles, with every feature on
    'all': (['--workspace', '--all-features'], ['pie', 'pie_graph', 'dev_ext', 'dev_util']),
    # thorough tier additions
    'all-targets': (['--workspace', '--all-features', '--all-targets'], ['pie', 'pie_graph', 'dev_ext', 'dev_util']),
    'pie-default': (['-p', 'pie'], ['pie', 'pie_graph']),
    'graph-noserde': (['-p', 'pie_graph', '--no-default-features'], ['pie_graph']),
    # the engine self-check crate (/verif/fixtures/engine_fixture)
    'fixture': ([], ['engine_fixture']),
    # the hashlink dependency itself (driver as RUSTC_WRAPPER, only hashlink dumped): re-derivation of the re-linking API table
    'hashlink': (['-p', 'pie_graph'], ['hashlink']),
}


def sysroot():
    return subprocess.check_output(['rustc', '+nightly', '--print', 'sysroot'], text=True).strip()


def ensure_driver():
    """Build the driver if its binary is missing or older than its source."""
    src = os.path.join(DRIVER_DIR, 'src', 'main.rs')
    if os.path.exists(DRIVER) and os.path.getmtime(DRIVER) >= os.path.getmtime(src):
        return
    os.makedirs(CACHE, exist_ok=True)
    with open(os.path.join(CACHE, 'driver.lock'), 'w') as lk:
        fcntl.flock(lk, fcntl.LOCK_EX)
        if os.path.exists(DRIVER) and os.path.getmtime(DRIVER) >= os.path.getmtime(src):
            return
        env = dict(os.environ, CARGO_NET_OFFLINE='true')
        r = subprocess.run(['cargo', '+nightly', 'build', '--release', '--offline'], cwd=DRIVER_DIR, env=env,
                           stdout=subprocess.PIPE, stderr=subprocess.STDOUT, text=True)
        if r.returncode != 0:
            sys.stderr.write(r.stdout)
            raise SystemExit('pie-facts driver failed to build')


def source_files(repo):
    out = []
    for root, dirs, files in os.walk(repo):
        dirs[:] = sorted(d for d in dirs if d not in ('.git', 'target', '.idea'))
        for f in sorted(files):
            if f.endswith(('.rs', '.toml', '.lock')):
                out.append(os.path.join(root, f))
    return out


def repo_hash(repo):
    h = hashlib.sha256()
    for p in source_files(repo):
        h.update(os.path.relpath(p, repo).encode())
        h.update(b'\0')
        with open(p, 'rb') as fh:
            h.update(fh.read())
        h.update(b'\0')
    with open(DRIVER, 'rb') as fh:
        h.update(hashlib.sha256(fh.read()).digest())
    return h.hexdigest()[:24]


def run_extract(repo, config, out_dir, target_dir=None, keep_target=False):
    """Run the driver over `repo` with cargo args of `config`; JSON files land in out_dir.
    Returns (ok, log)."""
    args, expect = CONFIGS[config]
    own_target = target_dir is None
    if own_target:
        target_dir = tempfile.mkdtemp(prefix='pie-facts-target-')
    else:
        # cargo's freshness cache would skip the wrapper: drop the members' fingerprints
        fp = os.path.join(target_dir, 'debug', '.fingerprint')
        if os.path.isdir(fp):
            for d in os.listdir(fp):
                if d.rsplit('-', 1)[0] in MEMBERS:
                    shutil.rmtree(os.path.join(fp, d), ignore_errors=True)
    os.makedirs(out_dir, exist_ok=True)
    env = dict(os.environ)
    env.update({
        'PIE_FACTS_DIR': out_dir,
        'LD_LIBRARY_PATH': os.path.join(sysroot(), 'lib') + ':' + env.get('LD_LIBRARY_PATH', ''),
        'RUSTFLAGS': '-Zmir-opt-level=0 -Awarnings',
        'CARGO_TARGET_DIR': target_dir,
        'CARGO_NET_OFFLINE': 'true',
    })
    if os.environ.get('PIE_EXTRACT_JOBS'):
        env['CARGO_BUILD_JOBS'] = os.environ['PIE_EXTRACT_JOBS']
    env.pop('RUSTC_WRAPPER', None)
    env.pop('RUSTC_WORKSPACE_WRAPPER', None)
    if config == 'hashlink':
        env['RUSTC_WRAPPER'] = DRIVER
        env['PIE_FACTS_ONLY'] = 'hashlink'
    else:
        env['RUSTC_WORKSPACE_WRAPPER'] = DRIVER
    try:
        r = subprocess.run(['cargo', '+nightly', 'check', '--offline'] + args, cwd=repo, env=env,
                           stdout=subprocess.PIPE, stderr=subprocess.STDOUT, text=True)
        log = r.stdout
        ok = r.returncode == 0
        if ok:
            have = {f.split('-')[0] for f in os.listdir(out_dir) if f.endswith('.json')}
            missing = [c for c in expect if c not in have]
            if missing:
                ok = False
                log += '\npie-facts: no fact file for crates %s (driver skipped?)\n' % missing
        return ok, log
    finally:
        if own_target and not keep_target:
            shutil.rmtree(target_dir, ignore_errors=True)


def facts_dir(repo, config='all', quiet=False):
    """Return a directory with the fact files for (repo working tree, config), extracting if needed."""
    ensure_driver()
    os.makedirs(CACHE, exist_ok=True)
    key = repo_hash(repo) + '-' + config
    d = os.path.join(CACHE, 'facts', key)
    done = os.path.join(d, 'DONE')
    if os.path.exists(done):
        return d
    os.makedirs(os.path.join(CACHE, 'facts'), exist_ok=True)
    with open(os.path.join(CACHE, 'extract-%s.lock' % config), 'w') as lk:
        fcntl.flock(lk, fcntl.LOCK_EX)
        if os.path.exists(done):
            return d
        shutil.rmtree(d, ignore_errors=True)
        t0 = time.time()
        tmp = d + '.tmp'
        shutil.rmtree(tmp, ignore_errors=True)
        ok, log = run_extract(repo, config, tmp)
        if not ok:
            sys.stderr.write(log[-6000:])
            shutil.rmtree(tmp, ignore_errors=True)
            raise SystemExit('pie-facts: `cargo +nightly check` of %s (config %s) failed; cannot analyse' % (repo, config))
        os.rename(tmp, d)
        with open(done, 'w') as fh:
            fh.write('%.1f\n' % (time.time() - t0))
        if not quiet:
            sys.stderr.write('[extract] %s config=%s %.1fs -> %s\n' % (repo, config, time.time() - t0, d))
        prune_cache()
    return d


def prune_cache(keep=80):
    base = os.path.join(CACHE, 'facts')
    try:
        ents = [(os.path.getmtime(os.path.join(base, e)), e) for e in os.listdir(base) if not e.endswith('.tmp')]
    except FileNotFoundError:
        return
    ents.sort(reverse=True)
    for _, e in ents[keep:]:
        shutil.rmtree(os.path.join(base, e), ignore_errors=True)


if __name__ == '__main__':
    repo = sys.argv[1] if len(sys.argv) > 1 else '/repo'
    cfg = sys.argv[2] if len(sys.argv) > 2 else 'all'
    print(facts_dir(repo, cfg))
