"""Developer runner: run rule groups against a facts dir / repo and print all obligations."""
import sys, os
sys.path.insert(0, os.path.dirname(os.path.abspath(__file__)))
import extract
from core import Facts
from roles import Roles
from report import Report
import rules_protocol as RP

def main():
    repo = os.environ.get('PIE_REPO', '/repo')
    F = Facts(os.environ.get('PIE_FACTS') or extract.facts_dir(repo, 'all'))
    roles = Roles(F)
    R = Report()
    ctx = RP.Ctx(F, roles, R)
    import importlib
    for name in sys.argv[1:]:
        mod, fn = name.split('.')
        m = importlib.import_module(mod)
        getattr(m, fn)(ctx)
    bad = 0
    for o in R.obs:
        flag = 'ok ' if o['ok'] else o['status']
        if not o['ok']: bad += 1
        if not o['ok'] or os.environ.get('V'):
            print('[%s] %-16s %s\n      %s\n      @ %s  props=%s' % (flag, o['rule'], o['key'], o['msg'], o['where'], ','.join(o['props'])))
    print('%d obligations, %d failing' % (len(R.obs), bad))
main()
