"""Shared protocol rule groups (DESIGN.md section 3): EXEC, REQ, VAL, OPS, STORE.

Each function takes a Ctx and records obligations in ctx.R. Properties served are attached to every
obligation, so `check Cxx` selects the instances that matter for Cxx.
"""
from core import Event, Origin, origins_overlap, same_origin, strip_generics, type_head, CLOSURE_CALLS
from roles import DAG

T_EXEC = ('pie::Task::execute', 'pie::trait_object::task::TaskObj::execute_top_down',
          'pie::trait_object::task::TaskObj::execute_bottom_up')
TRACKER = 'pie::tracker::Tracker::'


class Ctx:
    def __init__(self, F, roles, R):
        self.F = F
        self.roles = roles
        self.R = R
        self._alias_tracking_forwarders()

    def _alias_tracking_forwarders(self):
        """`Tracking` hands single events to the tracker through Deref (`self.tracker.write_start(..)` is a call of the trait method). The
        same thing written as explicit inherent one-line forwarders (`fn write_start(&mut self, a, b) { self.0.write_start(a, b) }`) is
        read as that trait call: same name, all parameters passed on in order, nothing else in the body."""
        F, adt = self.F, getattr(self.roles, 'tracking_adt', None)
        TRK = 'pie::tracker::Tracker'
        if not adt or getattr(F, '_tracking_aliased', False):
            return
        F._tracking_aliased = True
        fw = {}
        for b in F.bodies.values():
            if b.crate != 'pie' or b.kind != 'AssocFn' or not b.impl_self or type_head(b.impl_self) != adt or b.impl_trait or b.local_ty(0) != '()':
                continue
            cs = [c for c in b.calls.values() if not b.blocks[c.bb]['cleanup']]
            if len(cs) != 1 or cs[0].trait != TRK or cs[0].name != b.name or len(cs[0].args) != b.argc:
                continue
            c = cs[0]
            if not all(o.kind == 'arg' and o.key == 1 for o in b.orig_operand(c.args[0])) or not b.orig_operand(c.args[0]):
                continue
            if all(b.orig_operand(c.args[i]) and all(o.kind == 'arg' and o.key == i + 1 and not o.path for o in b.orig_operand(c.args[i])) for i in range(1, b.argc)):
                fw[b.id] = b.name
        if not fw:
            return
        for b in F.bodies.values():
            if b.crate != 'pie':
                continue
            for c in b.calls.values():
                cb = F.callee_body(c)
                if cb is not None and cb.id in fw:
                    c.trait = TRK
                    c.qname = TRK + '::' + fw[cb.id]

    # ---- generic helpers ----
    def has_field(self, origins, name):
        return any(('f', name) in o.path for o in origins)

    def is_cur(self, origins):
        return self.has_field(origins, self.roles.f_cur)

    def infeasible(self, body, assume_cur=False):
        """avoid-predicate: switch edges that cannot be taken (enum edge admitting no variant), and, with
        assume_cur, the edges on which no task is executing."""
        def f(n):
            if isinstance(n, tuple):
                g = body.guard_of(n[1], n[2])
                if g is None:
                    return False
                if g.kind == 'enum':
                    vs = g.variants()
                    if vs is not None and len(vs) == 0:
                        return True
                    if assume_cur and vs == frozenset(['None']) and self.is_cur(g.origins):
                        return True
            return False
        return f

    def both(self, *preds):
        return lambda n: any(p(n) for p in preds)

    def base_call_bbs(self, origins):
        return {o.key for o in origins if o.kind == 'call'}

    def where(self, body, bb=None, line=None):
        if line is None and bb is not None:
            c = body.call_at(bb)
            line = c.line if c else body.blocks[bb].get('tln', body.line)
        return '%s:%s %s' % (body.file, line if line is not None else body.line, body.path)

    def ok_exit_blocks(self, body):
        """Blocks that build a success return value: `_0 = Ok(..)` for Result-returning functions,
        otherwise the return blocks."""
        if type_head(body.local_ty(0)) == 'std::result::Result':
            out = []
            for d in body.defs.get(0, []):
                if d[0] == 'stmt' and d[3]['k'] == 'aggr' and d[3]['ak'].get('variant') == 'Ok':
                    out.append(d[1])
                elif d[0] == 'call' and d[2].qname != 'std::ops::FromResidual::from_residual':
                    out.append(d[1])  # a forwarded Result: may be a success
            return out or body.returns()
        return body.returns()

    def dep_variants(self, body, operand, depth=0):
        """Which variants of the dependency enum an operand may hold (follows moves and constructors,
        without the identity-call shortcuts of ORIG: `Into::into` changes the type here)."""
        r = self.roles
        if operand[0] not in ('c', 'm'):
            return {'?'}
        local, proj = operand[1]
        if [p for p in proj if p != '*']:
            return {'?'}
        return self._dep_variants_local(body, local, depth, set())

    def _dep_variants_local(self, body, local, depth, seen):
        r = self.roles
        if local in seen or depth > 5:
            return {'?'}
        seen = seen | {local}
        defs = body.defs.get(local, [])
        if not defs:
            return {'?param'} if 1 <= local <= body.argc else {'?'}
        out = set()
        for d in defs:
            if d[0] == 'stmt':
                rv = d[3]
                if rv['k'] == 'aggr':
                    ak = rv['ak']
                    if strip_generics(body.fix(ak.get('adt', ''))) == r.dep_enum:
                        out.add(ak['variant'])
                    else:
                        out.add('?')
                elif rv['k'] in ('use', 'cast'):
                    op = self.F.operand(rv['op'])
                    if op[0] in ('c', 'm') and not [p for p in op[1][1] if p != '*']:
                        out |= self._dep_variants_local(body, op[1][0], depth, seen)
                    else:
                        out.add('?')
                elif rv['k'] == 'ref':
                    pl = self.F.place(rv['pl'])
                    if not [p for p in pl[1] if p != '*']:
                        out |= self._dep_variants_local(body, pl[0], depth, seen)
                    else:
                        out.add('?')
                else:
                    out.add('?')
            else:
                c = d[2]
                cb = self.F.callee_body(c)
                if c.qname in ('std::convert::Into::into', 'std::convert::From::from') and type_head(c.dest_ty) == r.dep_enum:
                    cands = [x for x in self.F.bodies.values() if x.impl_trait == 'std::convert::From' and x.name == 'from'
                             and x.impl_self and type_head(x.impl_self) == r.dep_enum]
                    for x in cands:
                        out |= self._dep_variants_local(x, 0, depth + 1, set())
                    if not cands:
                        out.add('?')
                elif cb is not None and type_head(c.dest_ty) == r.dep_enum:
                    out |= self._dep_variants_local(cb, 0, depth + 1, set())
                elif c.qname == 'std::clone::Clone::clone' and c.args and c.args[0][0] in ('c', 'm'):
                    out |= self._dep_variants_local(body, c.args[0][1][0], depth, seen)
                else:
                    out.add('?')
        return out


# ================================================================================================
# EXEC — the execution protocol
# ================================================================================================

def ev_call_to(ctx, target_body, name, key_args):
    """Event: a call that resolves exactly to `target_body`; key = origins of the listed args."""
    def match(body, node):
        if isinstance(node, tuple):
            return None
        c = body.call_at(node)
        if c is None:
            return None
        cb = ctx.F.callee_body(c)
        if cb is None or cb.id != target_body.id:
            return None
        return tuple(body.orig_operand(c.args[i]) for i in key_args)
    return Event(name, match)


def ev_trait_call(ctx, qname, name, key_args=()):
    def match(body, node):
        if isinstance(node, tuple):
            return None
        c = body.call_at(node)
        if c is None or c.qname != qname:
            return None
        return tuple(body.orig_operand(c.args[i]) for i in key_args)
    return Event(name, match)


def tracking_end_calls(ctx, body, start_call):
    """call_once sites in `body` that invoke the closure returned by `start_call`."""
    out = []
    for c in body.find_calls(lambda c: c.qname in CLOSURE_CALLS):
        if start_call.bb in ctx.base_call_bbs(body.orig_operand(c.args[0])):
            out.append(c)
    return out


def closure_calls_tracker(ctx, closure_body, method):
    ev = ev_trait_call(ctx, TRACKER + method, method)
    return bool(ev.summary(closure_body))


def rule_exec(ctx):
    R, roles, F = ctx.R, ctx.roles, ctx.F
    P1 = ('C01', 'C06', 'C08', 'C19')
    if not roles.reset or not roles.set_out:
        R.missing('EXEC', 'reset/set_out', 'store reset / set-output method not resolved', props=P1)
        return
    ev_reset = ev_call_to(ctx, roles.reset, 'reset', [1])
    ev_setout = ev_call_to(ctx, roles.set_out, 'set_out', [1, 2])
    ev_start = ev_trait_call(ctx, TRACKER + 'execute_start', 'execute_start', [1])
    n_sites = 0
    for body, xcalls in roles.exec_sites:
        for x in xcalls:
            n_sites += 1
            key = '%s' % body.path
            inf = ctx.infeasible(body)
            # EXEC-1 reset before execute
            reset_blocks = ev_reset.blocks_with(body)
            w = body.must_before(x.bb, ctx.both(inf, lambda n: n in reset_blocks))
            R.ob('EXEC-1', key, w is None, 'the task is reset (output dropped, outgoing edges removed) on every path before it is executed'
                 if w is None else 'a path reaches the execution of the task without resetting it first:\n' + body.fmt_path(w),
                 ctx.where(body, x.bb), props=('C01', 'C02', 'C06', 'C08', 'C09', 'C19', 'C20'))
            reset_nodes = set()
            for bb in reset_blocks:
                for k in ev_reset.keys_at(body, bb):
                    reset_nodes.add(k[0])
            # EXEC-2 current executing task set before, restored after. Setting = Option::replace(cur, n) | mem::replace(cur, Some(n)) |
            # Option::insert(cur, n) | `cur = Some(n)`; the saved value = the result of a replace/take, or a copy of cur read before.
            sets = []   # (block, node origins, call-or-None)
            for c in body.calls.values():
                if body.blocks[c.bb]['cleanup'] or not c.args or not ctx.is_cur(body.orig_operand(c.args[0])):
                    continue
                if c.qname in ('std::option::Option::replace', 'std::option::Option::insert') and len(c.args) > 1:
                    sets.append((c.bb, body.orig_operand(c.args[1]), c))
                elif c.qname == 'std::mem::replace' and len(c.args) > 1:
                    vo = body.orig_operand(c.args[1])
                    inner = set()
                    for o in vo:
                        if o.kind == 'aggr' and body.blocks[o.key[0]]['stmts'][o.key[1]]['rv']['ak'].get('variant') == 'Some':
                            inner |= set(body.orig_operand(F.operand(body.blocks[o.key[0]]['stmts'][o.key[1]]['rv']['ops'][0])))
                    if inner:
                        sets.append((c.bb, frozenset(inner), c))
            for (bb, si, place, rv, ln) in body.stores:
                if ctx.is_cur(body.orig_place(place)) and not any(isinstance(p_, tuple) and p_[0] == 'd' for p_ in place[1]):
                    if rv['k'] == 'aggr' and rv['ak'].get('variant') == 'Some':
                        sets.append((bb, body.orig_operand(F.operand(rv['ops'][0])), None))
                    elif rv['k'] == 'use':
                        vo = body.orig_operand(F.operand(rv['op']))
                        for o in vo:
                            if o.kind == 'aggr' and body.blocks[o.key[0]]['stmts'][o.key[1]]['rv']['ak'].get('variant') == 'Some' and x.bb in body.reach([bb], avoid=inf):
                                sets.append((bb, body.orig_operand(F.operand(body.blocks[o.key[0]]['stmts'][o.key[1]]['rv']['ops'][0])), None))
            repl = [s for s in sets if s[0] != x.bb and x.bb in body.reach(body.xsucc(s[0]) if s[2] is not None else [s[0]], avoid=inf)]
            repl_bbs = {s[0] for s in repl}
            w = body.must_before(x.bb, ctx.both(inf, lambda n: n in repl_bbs))
            R.ob('EXEC-2a', key, w is None and bool(repl), 'the executing-task field is set to the task before it executes' if (w is None and repl)
                 else 'a path reaches the execution without the executing-task field being set to this task:\n' + (body.fmt_path(w) if w else '(no assignment of Some(task) to the field found)'),
                 ctx.where(body, x.bb), props=('C05', 'C06', 'C07', 'C08'))
            saved_calls = {s[2].bb for s in repl if s[2] is not None} | {c.bb for c in body.calls.values() if c.qname in ('std::option::Option::take', 'std::mem::take') and c.args and ctx.is_cur(body.orig_operand(c.args[0]))}
            restore_bbs = set()
            for (bb, si, place, rv, ln) in body.stores:
                if ctx.is_cur(body.orig_place(place)) and rv['k'] == 'use' and bb not in repl_bbs:
                    vo = body.orig_operand(F.operand(rv['op']))
                    if ctx.base_call_bbs(vo) & saved_calls or (vo and all(ctx.is_cur(frozenset([o])) for o in vo)):
                        restore_bbs.add(bb)
            for c in body.calls.values():
                if c.qname in ('std::mem::replace', 'std::option::Option::replace') and c.bb not in repl_bbs and c.args and ctx.is_cur(body.orig_operand(c.args[0])) and len(c.args) > 1:
                    if ctx.base_call_bbs(body.orig_operand(c.args[1])) & saved_calls:
                        restore_bbs.add(c.bb)
            w = body.must_after(x.bb, ctx.both(inf, lambda n: n in restore_bbs))
            R.ob('EXEC-2b', key, w is None, 'the previous executing task is restored on every normal path after the execution' if w is None
                 else 'a normal path returns after the execution without restoring the previous executing task:\n' + body.fmt_path(w),
                 ctx.where(body, x.bb), props=('C05', 'C06', 'C07', 'C08', 'C20'))
            repl_nodes = {s[1] for s in repl}
            # EXEC-3 tracker start / end with the produced output
            start_blocks = ev_start.blocks_with(body)
            w = body.must_before(x.bb, ctx.both(inf, lambda n: n in start_blocks))
            R.ob('EXEC-3a', key, w is None, 'execute_start is emitted before the task executes' if w is None
                 else 'a path reaches the execution without an execute_start event:\n' + body.fmt_path(w), ctx.where(body, x.bb), props=('C17',))
            ends = []
            for sb in start_blocks:
                sc = body.call_at(sb)
                if sc is None:
                    continue
                for e in tracking_end_calls(ctx, body, sc):
                    cb = F.callee_body(e)
                    if cb is not None and closure_calls_tracker(ctx, cb, 'execute_end'):
                        ends.append(e)
            direct_end = body.find_calls(lambda c: c.qname == TRACKER + 'execute_end')
            end_bbs = {e.bb for e in ends} | {c.bb for c in direct_end}
            w = body.must_after(x.bb, ctx.both(inf, lambda n: n in end_bbs))
            R.ob('EXEC-3b', key, w is None, 'execute_end is emitted on every normal path after the execution' if w is None
                 else 'a normal path returns after the execution without an execute_end event:\n' + body.fmt_path(w), ctx.where(body, x.bb), props=('C17',))
            for e in ends:
                tup = body.orig_operand(e.args[1])
                outs = set()
                for t in tup:
                    outs |= body._project(t, [('f', 1, '1', 'tuple')], None)
                good = ctx.base_call_bbs(outs) == {x.bb}
                R.ob('EXEC-3c', key + '#end', good, 'execute_end carries the value the execution returned' if good
                     else 'execute_end is given a value that is not the result of this execution: %s' % body.describe_origins(outs),
                     ctx.where(body, e.bb), props=('C17',))
            for c in direct_end:
                outs = body.orig_operand(c.args[2]) if len(c.args) > 2 else frozenset()
                good = ctx.base_call_bbs(outs) == {x.bb}
                R.ob('EXEC-3c', key + '#end', good, 'execute_end carries the value the execution returned' if good
                     else 'execute_end is given a value that is not the result of this execution', ctx.where(body, c.bb), props=('C17',))
            # EXEC-4 output stored after, and it is the produced one
            so_blocks = ev_setout.blocks_with(body)
            w = body.must_after(x.bb, ctx.both(inf, lambda n: n in so_blocks))
            R.ob('EXEC-4a', key, w is None, 'the new output is stored on every normal path after the execution' if w is None
                 else 'a normal path returns after the execution without storing the output:\n' + body.fmt_path(w), ctx.where(body, x.bb), props=('C01', 'C03', 'C19'))
            so_nodes = set()
            for bb in so_blocks:
                for k in ev_setout.keys_at(body, bb):
                    so_nodes.add(k[0])
                    good = ctx.base_call_bbs(k[1]) == {x.bb}
                    R.ob('EXEC-4b', key + '#value', good, 'the stored output is (a clone of) the value the execution returned' if good
                         else 'the stored output does not originate in this execution: %s' % body.describe_origins(k[1]),
                         ctx.where(body, bb), props=('C01', 'C03'))
            # no output may be stored between the reset and the execution: an aborted execution must leave the task without output (C19)
            early = [bb for bb in so_blocks if x.bb in body.reach(body.xsucc(bb), avoid=inf)]
            R.ob('EXEC-4c', key, not early, 'no output is stored before the task has executed (an aborted execution leaves the task without output, so it is executed as new later)' if not early
                 else 'an output is stored before the task executes: if the execution aborts, the task keeps an output it never produced and is reused', ctx.where(body, early[0]) if early else ctx.where(body, x.bb),
                 props=('C19', 'C01'))
            # EXEC-5 same node everywhere
            allnodes = reset_nodes | repl_nodes | so_nodes
            good = len(allnodes) == 1 and all(len(s) == 1 for s in allnodes)
            R.ob('EXEC-5', key, good, 'reset, executing-task and stored output all name the same task node' if good
                 else 'reset / executing-task / set-output are applied to different nodes: %s' % [body.describe_origins(s) for s in allnodes],
                 ctx.where(body, x.bb), props=('C01', 'C08'))
    R.floor('EXEC', 'execution sites', n_sites, 3, props=('C01', 'C02', 'C04', 'C06', 'C08', 'C17'))
    # EXEC-6 who-may-execute: the delegating impls only forward
    for pb in roles.exec_proxies:
        ok = pb.impl_trait in ('pie::Task', 'pie::trait_object::task::TaskObj')
        R.ob('EXEC-6', pb.path + '@' + (pb.impl_self or ''), ok, 'delegating implementation', ctx.where(pb), props=('C02', 'C04', 'C17'))


# ================================================================================================
# REQ — the require protocol
# ================================================================================================

def reaches_exec(ctx, body, depth=0, seen=None):
    seen = seen if seen is not None else set()
    if body.id in seen or depth > 6:
        return False
    seen.add(body.id)
    if any(body.id == b.id for b, _ in ctx.roles.exec_sites):
        return True
    for c in body.calls.values():
        cb = ctx.F.callee_body(c)
        if cb is not None:
            if reaches_exec(ctx, cb, depth + 1, seen):
                return True
        elif c.trait and c.trait.startswith('pie::'):
            # dynamic dispatch on one of pie's own object-safe traits (e.g. the consistency check of a require dependency, which makes the
            # required task consistent and may execute it): any implementation in pie may be the target
            for x in ctx.F.callee_candidates(c):
                if x.crate == 'pie' and not x.is_test_code() and reaches_exec(ctx, x, depth + 1, seen):
                    return True
    return False


def rule_req(ctx):
    R, roles, F = ctx.R, ctx.roles, ctx.F
    PR = ('C05', 'C07', 'C08', 'C09', 'C17')
    if not roles.add_dep or not roles.dep_mut:
        R.missing('REQ', 'add_dep/dep_mut', 'store add-dependency / dependency-mut not resolved', props=PR)
        return
    sites = [b for b in F.bodies.values() if b.crate == 'pie' and b.impl_trait == 'pie::Context' and b.name == 'require'
             and b.kind == 'AssocFn' and not b.is_test_code()]
    R.floor('REQ', 'Context::require implementations', len(sites), 2, props=PR)

    def m_reserve(body, node):
        if isinstance(node, tuple):
            return None
        c = body.call_at(node)
        if c is None:
            return None
        cb = F.callee_body(c)
        if cb is None or cb.id != roles.add_dep.id:
            return None
        if ctx.dep_variants(body, c.args[3]) != {'ReservedRequire'}:
            return None
        # the Err edge of the result must diverge (the cycle error is not swallowed)
        inf = ctx.infeasible(body)
        for (bb, k), g in body.guards.items():
            if g.kind == 'enum' and c.bb in ctx.base_call_bbs(g.origins) and not any(o.path for o in g.origins):
                vs = g.variants()
                if vs and 'Err' in vs:
                    seen = body.reach([('e', bb, k)], avoid=inf)
                    if any(r in seen for r in body.returns()):
                        return None
        if not any(g.kind == 'enum' and c.bb in ctx.base_call_bbs(g.origins) for g in body.guards.values()):
            return None  # result ignored
        return (body.orig_operand(c.args[1]), body.orig_operand(c.args[2]))
    ev_reserve = Event('reserve', m_reserve)

    def m_update(body, node):
        if isinstance(node, tuple):
            return None
        for (bb, si, place, rv, ln) in body.stores:
            if bb != node:
                continue
            base = body.orig_local(place[0])
            dm = [body.calls[o.key] for o in base if o.kind == 'call' and o.key in body.calls]
            dm = [c for c in dm if F.callee_body(c) is not None and F.callee_body(c).id == roles.dep_mut.id]
            if not dm or rv['k'] != 'use':
                continue
            c = dm[0]
            val = body.orig_operand(F.operand(rv['op']))
            # the value: Dependency built from TaskDependency::new(task, checker, stamp)
            parts = None
            for o in val:
                if o.kind == 'call':
                    vc = body.calls[o.key]
                    if vc.qname.endswith('TaskDependency::new') and len(vc.args) == 3:
                        parts = tuple(body.orig_operand(a) for a in vc.args)
            if parts is None:
                continue
            variants = ctx.dep_variants(body, F.operand(rv['op']))
            return (body.orig_operand(c.args[1]), body.orig_operand(c.args[2]), parts[0], parts[1], parts[2], frozenset(variants))
        return None
    ev_update = Event('update', m_update)
    ev_update.assume_cur = True

    for body in sites:
        key = body.path + '@' + (body.impl_self or '')
        inf = ctx.infeasible(body)
        ret = body.orig_local(0)
        mcs = [body.calls[o.key] for o in ret if o.kind == 'call' and not o.path]
        if len(ret) != 1 or len(mcs) != 1:
            R.undecided('REQ-ret', key, 'the returned value does not originate in a single call: %s' % body.describe_origins(ret), ctx.where(body), props=('C09', 'C17', 'C01', 'C08'))
            # the order rule can still be decided: every call that can (transitively, also through pie's own dyn traits) execute a task must
            # come after the reserved edge
            infc = ctx.infeasible(body, assume_cur=True)
            res_blocks = blocks_with_assuming(ctx, ev_reserve, body)
            xs = [c for c in body.calls.values() if not body.blocks[c.bb]['cleanup'] and F.callee_body(c) is not None and reaches_exec(ctx, F.callee_body(c))]
            w = None
            for c in xs:
                w = w or body.must_before(c.bb, ctx.both(infc, lambda n: n in res_blocks))
            R.ob('REQ-reserve', key, w is None and bool(xs), 'a reserved require edge is added (and a cycle aborts) before the required task can execute' if w is None and xs
                 else 'a call that can execute tasks is reachable without reserving the require edge first (a cycle would recurse):\n' + (body.fmt_path(w) if w else ''),
                 ctx.where(body), props=('C07', 'C05', 'C20'))
            continue
        mc = mcs[0]
        mcb = F.callee_body(mc)
        good = mcb is not None and reaches_exec(ctx, mcb)
        if mcb is None and mc.trait and mc.trait.startswith('pie::'):
            # a method of one of pie's own traits called on a type parameter (a shared generic `require` inlined here): the implementation for
            # this context type if there is one, otherwise every implementation must be able to execute
            cands = [x for x in F.callee_candidates(mc) if x.crate == 'pie' and not x.is_test_code()]
            own = [x for x in cands if type_head(x.impl_self or '') == type_head(body.impl_self or '')]
            use = own or cands
            good = bool(use) and all(reaches_exec(ctx, x) for x in use)
        R.ob('REQ-ret', key, good, 'require returns the value produced by make-consistent (%s)' % mc.qname if good
             else 'the returned value comes from %s which cannot reach an execution site' % mc.qname, ctx.where(body, mc.bb), props=('C09', 'C17', 'C01'))
        # the node of the required task: looked up with the task that was given
        for c in body.calls.values():
            if roles.get_or_create_task is not None and F.callee_body(c) is not None and F.callee_body(c).id == roles.get_or_create_task.id:
                to = body.orig_operand(c.args[1])
                good = bool(to) and all(o.kind == 'arg' and o.key == 2 for o in to)
                R.ob('REQ-dst-node', key, good, 'the graph node of the required task is looked up with the task that was required' if good
                     else 'the node is looked up with %s' % body.describe_origins(to), ctx.where(body, c.bb), props=('C08', 'C15', 'C07'))
        # reserve before make-consistent, under "a task is executing"
        infc = ctx.infeasible(body, assume_cur=True)
        # the summaries of reserve/update must be computed under the same assumption
        res_blocks = blocks_with_assuming(ctx, ev_reserve, body)
        w = body.must_before(mc.bb, ctx.both(infc, lambda n: n in res_blocks))
        R.ob('REQ-reserve', key, w is None, 'a reserved require edge is added (and a cycle aborts) before the required task can execute' if w is None
             else 'make-consistent is reachable without reserving the require edge first (a cycle would recurse):\n' + body.fmt_path(w),
             ctx.where(body, mc.bb), props=('C07', 'C05', 'C20'))
        res_keys = set()
        for bb in res_blocks:
            res_keys |= keys_at_assuming(ctx, ev_reserve, body, bb)
        upd_blocks = blocks_with_assuming(ctx, ev_update, body)
        w = body.must_after(mc.bb, ctx.both(infc, lambda n: n in upd_blocks))
        R.ob('REQ-update', key, w is None, 'the reserved edge is updated to a require dependency on every normal path after make-consistent' if w is None
             else 'a normal path returns without recording the require dependency:\n' + body.fmt_path(w), ctx.where(body, mc.bb), props=('C08', 'C03'))
        for bb in upd_blocks:
            for k in keys_at_assuming(ctx, ev_update, body, bb):
                src, dst, task_o, chk_o, stamp_o, variants = k
                good = variants == frozenset(['Require'])
                R.ob('REQ-variant', key, good, 'the recorded dependency is a Require dependency' if good else 'recorded variant(s): %s' % sorted(variants), ctx.where(body, bb), props=('C08',))
                dsts = {rk[1] for rk in res_keys}
                good = len(dsts) == 1 and dst in dsts
                R.ob('REQ-same-edge', key, good, 'reserve and update address the same (source, destination) edge' if good
                     else 'reserve addresses %s, update addresses %s' % ([body.describe_origins(d) for d in dsts], body.describe_origins(dst)), ctx.where(body, bb), props=('C08', 'C07'))
                srcs = {rk[0] for rk in res_keys} | {src}
                good = all(ctx.is_cur(s) for s in srcs)
                R.ob('REQ-src', key, good, 'the edge source is the currently executing task' if good
                     else 'edge source is not the executing-task field: %s' % [body.describe_origins(s) for s in srcs], ctx.where(body, bb), props=('C08',))
                # the stamp: OutputChecker::stamp(checker, &output_of_mc)
                scs = [body.calls[o.key] for o in stamp_o if o.kind == 'call']
                good = len(stamp_o) == 1 and len(scs) == 1 and scs[0].qname == 'pie::OutputChecker::stamp' and \
                    ctx.base_call_bbs(body.orig_operand(scs[0].args[1])) == {mc.bb} and len(body.orig_operand(scs[0].args[1])) == 1
                R.ob('REQ-stamp', key, good, 'the recorded stamp is checker.stamp(&output) of the value returned to the requirer' if good
                     else 'the recorded stamp is not the stamp of the returned output: %s' % body.describe_origins(stamp_o), ctx.where(body, bb), props=('C09', 'C08'))
                if good:
                    sc = scs[0]
                    same_chk = body.orig_operand(sc.args[0]) == chk_o and all(o.kind == 'arg' for o in chk_o) and len(chk_o) == 1
                    R.ob('REQ-checker', key, same_chk, 'the checker that stamped is the checker recorded (the caller\'s)' if same_chk
                         else 'stamping checker %s differs from recorded checker %s' % (body.describe_origins(body.orig_operand(sc.args[0])), body.describe_origins(chk_o)),
                         ctx.where(body, bb), props=('C09', 'C08'))
                tgood = len(task_o) == 1 and all(o.kind == 'arg' and o.key == 2 for o in task_o)
                R.ob('REQ-task', key, tgood, 'the recorded task is (a clone of) the required task' if tgood
                     else 'recorded task origin: %s' % body.describe_origins(task_o), ctx.where(body, bb), props=('C08',))
        # tracker: require start/end
        starts = [c for c in body.find_calls(lambda c: bool(ev_trait_call(ctx, TRACKER + 'require_start', 'rs').keys_at(body, c.bb)))]
        w = body.must_before(mc.bb, ctx.both(inf, lambda n: n in {c.bb for c in starts}))
        R.ob('REQ-track-start', key, w is None and bool(starts), 'require_start is emitted before make-consistent' if w is None and starts
             else 'no require_start on some path', ctx.where(body, mc.bb), props=('C17',))
        ends = []
        for sc in starts:
            for e in tracking_end_calls(ctx, body, sc):
                cb = F.callee_body(e)
                if cb is not None and closure_calls_tracker(ctx, cb, 'require_end'):
                    ends.append(e)
        w = body.must_after(mc.bb, ctx.both(inf, lambda n: n in {e.bb for e in ends}))
        R.ob('REQ-track-end', key, w is None, 'require_end is emitted on every normal path after make-consistent' if w is None
             else 'a normal path returns without require_end:\n' + body.fmt_path(w), ctx.where(body, mc.bb), props=('C17',))
        for e in ends:
            tup = body.orig_operand(e.args[1])
            f1, f2 = set(), set()
            for t in tup:
                f1 |= body._project(t, [('f', 1, '1', 'tuple')], None)
                f2 |= body._project(t, [('f', 2, '2', 'tuple')], None)
            good = ctx.base_call_bbs(f2) == {mc.bb} and len(f2) == 1
            R.ob('REQ-track-output', key, good, 'require_end carries the value returned to the caller' if good
                 else 'require_end output origin: %s' % body.describe_origins(f2), ctx.where(body, e.bb), props=('C17',))
            sgood = len(f1) == 1 and all(o.kind == 'call' and body.calls[o.key].qname == 'pie::OutputChecker::stamp' for o in f1)
            R.ob('REQ-track-stamp', key, sgood, 'require_end carries the stamp that is recorded' if sgood
                 else 'require_end stamp origin: %s' % body.describe_origins(f1), ctx.where(body, e.bb), props=('C17',))


def _assume_wrap(ctx, ev):
    """Summaries of helper functions guarded by `if let Some(cur) = current_executing_task` are
    computed under the assumption that a task is executing (the None edge is pruned)."""
    if getattr(ev, '_assuming', None) is None:
        orig_summary = ev.summary

        def summary(body, depth=0):
            if body.id in ev._sum:
                return ev._sum[body.id]
            ev._sum[body.id] = set()
            infc = ctx.infeasible(body, assume_cur=True)
            per_block = {}
            allkeys = set()
            for bb in range(body.nblocks):
                if body.blocks[bb]['cleanup']:
                    continue
                ks = ev.keys_at(body, bb, depth)
                if ks:
                    per_block[bb] = ks
                    allkeys |= ks
            must = set()
            rets = body.returns()
            for key in allkeys:
                blocks = {bb for bb, ks in per_block.items() if key in ks}
                seen = body.reach([0], avoid=ctx.both(infc, lambda n: n in blocks))
                if not any(r in seen for r in rets):
                    must.add(key)
            ev._sum[body.id] = must
            return must
        ev.summary = summary
        ev._assuming = True
    return ev


def blocks_with_assuming(ctx, ev, body):
    _assume_wrap(ctx, ev)
    return ev.blocks_with(body)


def keys_at_assuming(ctx, ev, body, bb):
    _assume_wrap(ctx, ev)
    return ev.keys_at(body, bb)


# ================================================================================================
# feasibility refinement (correlated Option/flag aggregates)
# ================================================================================================

def refined_infeasible(ctx, body, assume_cur=False, extra=None):
    """Fixpoint pruning (core.Body.refine) on top of: edges that admit no variant; optionally the
    `current task is None` edges; optionally an extra assumption. Handles correlated values such as
    `let x = if let Some(..) = cur { Some(..) } else { None }; .. if let Some(..) = x`."""
    base = ctx.infeasible(body, assume_cur)
    avoid, _ = body.refine(ctx.both(base, extra) if extra else base)
    return avoid


# ================================================================================================
# VAL — write validation; hidden-dependency guard on the reading side
# ================================================================================================

def guard_edges_on_call(body, call, path=()):
    """[(node, guard)] for switch edges testing the (projected) result of `call`."""
    out = []
    for (bb, k), g in body.guards.items():
        if all(o.kind == 'call' and o.key == call.bb and tuple(o.path) == tuple(path) for o in g.origins) and g.origins:
            out.append((('e', bb, k), g))
    return out


def make_val_events(ctx):
    R, roles, F = ctx.R, ctx.roles, ctx.F

    def is_q(c, pred, variants):
        q = roles.query_of_call(c)
        return q is not None and pred(q) and q['variants'] == frozenset(variants)

    def escape_edges(body, wcall):
        """edges asserting `writer == something` (the only admissible escape from the overlap abort)."""
        out = set()
        for (bb, k), g in body.guards.items():
            if g.kind != 'bool':
                continue
            for sc in g.subject_calls():
                if sc.qname in ('std::cmp::PartialEq::eq', 'std::cmp::PartialEq::ne') and len(sc.args) == 2:
                    a0 = ctx.base_call_bbs(body.orig_operand(sc.args[0]))
                    a1 = ctx.base_call_bbs(body.orig_operand(sc.args[1]))
                    if wcall.bb in a0 or wcall.bb in a1:
                        want = sc.qname.endswith('::eq')
                        if g.truth() == want:
                            out.add(('e', bb, k))
        return out

    def admissible_filter(body, qcall):
        """`writer_of(dst).filter(|w| w != x)`: the recorded writer is dropped only when it equals x (the
        current task) - the one admissible escape, written as a filter. Returns the filter call or None."""
        for fc in body.find_calls(lambda f: f.qname == 'std::option::Option::filter' and qcall.bb in ctx.base_call_bbs(body.orig_operand(f.args[0]))):
            for o in body.orig_operand(fc.args[1]):
                if o.kind != 'aggr':
                    continue
                cid = body.blocks[o.key[0]]['stmts'][o.key[1]]['rv']['ak'].get('closure')
                cb = F.bodies.get(cid)
                if cb is None:
                    continue
                ro = cb.orig_local(0)
                cs = [cb.calls[x.key] for x in ro if x.kind == 'call']
                if len(ro) == 1 and len(cs) == 1 and cs[0].qname == 'std::cmp::PartialEq::ne' and len(cs[0].args) == 2:
                    sides = [sorted({q.key for q in cb.orig_operand(a) if q.kind == 'arg'}) for a in cs[0].args]
                    if sorted(sides) == [[1], [2]]:
                        return fc
        return None

    def m_overlap(body, node):
        if isinstance(node, tuple):
            return None
        c = body.call_at(node)
        if c is None or not is_q(c, roles.is_writer_of, ['Write']):
            return None
        inf = ctx.infeasible(body)
        esc = escape_edges(body, c)
        subject = admissible_filter(body, c) or c
        edges = [(n, g) for n, g in guard_edges_on_call(body, subject) if g.variants() and 'Some' in g.variants()]
        if not edges:
            return None
        for n, g in edges:
            seen = body.reach([n], avoid=ctx.both(inf, lambda x: x in esc))
            if any(r in seen for r in body.returns()):
                return None
        return (body.orig_operand(c.args[1]),)

    def loop_over(body, qcall):
        """`next` calls iterating the result of qcall."""
        return [n for n in body.find_calls(lambda n: n.qname == 'std::iter::Iterator::next')
                if qcall.bb in ctx.base_call_bbs(body.orig_operand(n.args[0]))]

    def m_hidden_w_adaptor(body, c):
        """the same guard written with an iterator adaptor over the recorded readers:
        `readers.find(|r| !requires(r, src))` + abort on Some, `.any(..)` + abort on true, `.all(|r| requires(r, src))` + abort on false,
        `.position(..)` + abort on Some."""
        inf = ctx.infeasible(body)
        for fc in body.find_calls(lambda f: f.qname in ('std::iter::Iterator::find', 'std::iter::Iterator::any', 'std::iter::Iterator::all', 'std::iter::Iterator::position')
                                  and len(f.args) >= 2 and c.bb in ctx.base_call_bbs(body.orig_operand(f.args[0]))):
            for o in body.orig_operand(fc.args[1]):
                if o.kind != 'aggr':
                    continue
                st = body.blocks[o.key[0]]['stmts'][o.key[1]]
                cb = F.bodies.get(st['rv']['ak'].get('closure'))
                if cb is None:
                    continue
                ts = [t for t in cb.find_calls(lambda t: F.callee_body(t) is not None and F.callee_body(t).id == roles.trans_req.id)
                      if all(x.kind == 'arg' and x.key == 2 for x in cb.orig_operand(t.args[1])) and all(x.kind == 'arg' and x.key == 1 for x in cb.orig_operand(t.args[2]))]
                if len(ts) != 1:
                    continue
                # polarity of the closure result w.r.t. the reachability answer
                neg = None
                ds = cb.defs.get(0, [])
                if len(ds) == 1 and ds[0][0] == 'stmt' and ds[0][3]['k'] == 'un' and ds[0][3]['uop'] == 'Not' and ctx.base_call_bbs(cb.orig_operand(F.operand(ds[0][3]['a']))) == {ts[0].bb}:
                    neg = True
                elif ctx.base_call_bbs(cb.orig_local(0)) == {ts[0].bb} and len(cb.orig_local(0)) == 1 and not any(d[0] == 'stmt' and d[3]['k'] == 'un' for d in ds):
                    neg = False
                if neg is None or len(cb.returns()) != 1:
                    continue
                name = fc.qname.split('::')[-1]
                if name in ('find', 'any', 'position') and not neg:
                    continue  # selects readers that DO require the writer
                if name == 'all' and neg:
                    continue
                if name in ('find', 'position'):
                    bad_edges = [n for n, g in guard_edges_on_call(body, fc) if g.variants() == frozenset(['Some'])]
                elif name == 'any':
                    bad_edges = [n for n, g in guard_edges_on_call(body, fc) if g.truth() is True]
                else:
                    bad_edges = [n for n, g in guard_edges_on_call(body, fc) if g.truth() is False]
                if not bad_edges:
                    continue
                if any(r in body.reach([e], avoid=inf) for e in bad_edges for r in body.returns()):
                    continue
                # the writer handed to the reachability test: the captured task node
                caps = [F.operand(x) for x in st['rv']['ops']]
                tn = [x for x in caps if x[0] in ('c', 'm') and roles.task_node and roles.task_node in body.local_ty(x[1][0])]
                if len(tn) != 1:
                    continue
                return (body.orig_operand(c.args[1]), body.orig_operand(tn[0]))
        return None

    def m_hidden_w(body, node):
        if isinstance(node, tuple):
            return None
        c = body.call_at(node)
        if c is None or not is_q(c, roles.is_readers_of, ['Read']):
            return None
        nexts = loop_over(body, c)
        if len(nexts) != 1:
            return m_hidden_w_adaptor(body, c) if not nexts else None
        nx = nexts[0]
        inf = ctx.infeasible(body)
        some_edges = [n for n, g in guard_edges_on_call(body, nx) if g.variants() == frozenset(['Some'])]
        if not some_edges:
            return None
        ts = []
        for t in body.find_calls(lambda t: F.callee_body(t) is not None and F.callee_body(t).id == roles.trans_req.id):
            a1 = body.orig_operand(t.args[1])
            if len(a1) == 1 and all(o.kind == 'call' and o.key == nx.bb for o in a1):
                ts.append(t)
        if not ts:
            return None
        tb = {t.bb for t in ts}
        for e in some_edges:
            seen = body.reach([e], avoid=ctx.both(inf, lambda x: x in tb))
            if nx.bb in seen or any(r in seen for r in body.returns()):
                return None
        none_edges = {n for n, g in guard_edges_on_call(body, nx) if g.variants() == frozenset(['None'])}
        for e in some_edges:
            # every recorded reader is examined: the loop is left only when the iterator is exhausted (or by aborting)
            seen = body.reach([e], avoid=ctx.both(inf, lambda x: x in none_edges))
            if any(r in seen for r in body.returns()):
                return None
        srcs = set()
        for t in ts:
            false_edges = [n for n, g in guard_edges_on_call(body, t) if g.truth() is False]
            if not false_edges:
                return None
            for e in false_edges:
                seen = body.reach([e], avoid=inf)
                if nx.bb in seen or any(r in seen for r in body.returns()):
                    return None
            srcs.add(body.orig_operand(t.args[2]))
        if len(srcs) != 1:
            return None
        return (body.orig_operand(c.args[1]), next(iter(srcs)))

    def m_hidden_r_filter(body, c):
        """the reading-side guard written as `writer_of(dst).filter(|w| !requires(cur, w))` + abort on Some"""
        inf = ctx.infeasible(body)
        for fc in body.find_calls(lambda f: f.qname == 'std::option::Option::filter' and len(f.args) >= 2 and c.bb in ctx.base_call_bbs(body.orig_operand(f.args[0]))):
            if ctx.base_call_bbs(body.orig_operand(fc.args[0])) != {c.bb}:
                continue
            for o in body.orig_operand(fc.args[1]):
                if o.kind != 'aggr':
                    continue
                st = body.blocks[o.key[0]]['stmts'][o.key[1]]
                cb = F.bodies.get(st['rv']['ak'].get('closure'))
                if cb is None or len(cb.returns()) != 1:
                    continue
                ts = [t for t in cb.find_calls(lambda t: F.callee_body(t) is not None and F.callee_body(t).id == roles.trans_req.id)
                      if all(x.kind == 'arg' and x.key == 1 for x in cb.orig_operand(t.args[1])) and all(x.kind == 'arg' and x.key == 2 for x in cb.orig_operand(t.args[2]))]
                if len(ts) != 1:
                    continue
                ds = cb.defs.get(0, [])
                if not (len(ds) == 1 and ds[0][0] == 'stmt' and ds[0][3]['k'] == 'un' and ds[0][3]['uop'] == 'Not'
                        and ctx.base_call_bbs(cb.orig_operand(F.operand(ds[0][3]['a']))) == {ts[0].bb}):
                    continue  # keeps the writers the current task DOES require
                bad_edges = [n for n, g in guard_edges_on_call(body, fc) if g.variants() == frozenset(['Some'])]
                if not bad_edges or any(r in body.reach([e], avoid=inf) for e in bad_edges for r in body.returns()):
                    continue
                caps = [F.operand(x) for x in st['rv']['ops']]
                tn = [x for x in caps if x[0] in ('c', 'm') and roles.task_node and roles.task_node in body.local_ty(x[1][0])]
                if len(tn) != 1 or not ctx.is_cur(body.orig_operand(tn[0])):
                    continue
                return (body.orig_operand(c.args[1]),)
        return None

    def m_hidden_r(body, node):
        if isinstance(node, tuple):
            return None
        c = body.call_at(node)
        if c is None or not is_q(c, roles.is_writer_of, ['Write']):
            return None
        inf = ctx.infeasible(body)
        some_edges = [n for n, g in guard_edges_on_call(body, c) if g.variants() == frozenset(['Some'])]
        if not some_edges:
            return None
        ts = []
        for t in body.find_calls(lambda t: F.callee_body(t) is not None and F.callee_body(t).id == roles.trans_req.id):
            a1 = body.orig_operand(t.args[1])
            a2 = body.orig_operand(t.args[2])
            if ctx.is_cur(a1) and len(a1) == 1 and len(a2) == 1 and all(o.kind == 'call' and o.key == c.bb for o in a2):
                ts.append(t)
        if not ts:
            return m_hidden_r_filter(body, c)
        tb = {t.bb for t in ts}
        for e in some_edges:
            seen = body.reach([e], avoid=ctx.both(inf, lambda x: x in tb))
            if any(r in seen for r in body.returns()):
                return None
        for t in ts:
            false_edges = [n for n, g in guard_edges_on_call(body, t) if g.truth() is False]
            if not false_edges:
                return None
            for e in false_edges:
                seen = body.reach([e], avoid=inf)
                if any(r in seen for r in body.returns()):
                    return None
        return (body.orig_operand(c.args[1]),)

    return Event('overlap-guard', m_overlap), Event('hidden-guard(write side)', m_hidden_w), Event('hidden-guard(read side)', m_hidden_r)


def rule_val(ctx):
    """Direct report on every function that queries the recorded writer / readers of a resource for
    validation: the guard must be intact where it stands."""
    R, roles, F = ctx.R, ctx.roles, ctx.F
    ev_overlap, ev_hw, ev_hr = make_val_events(ctx)
    ctx.ev_overlap, ctx.ev_hw, ctx.ev_hr = ev_overlap, ev_hw, ev_hr
    n_w = n_r = 0
    for body in F.bodies.values():
        if body.crate != 'pie' or body.is_test_code() or (body.impl_self and type_head(body.impl_self) == roles.store_adt):
            continue
        for c in body.find_calls(lambda c: roles.query_of_call(c) is not None):
            q = roles.query_of_call(c)
            key = body.path
            if roles.is_writer_of(q):
                n_w += 1
                good_q = q['variants'] == frozenset(['Write'])
                R.ob('STORE-writer-of', key, good_q, 'the recorded-writer query selects Write dependencies on incoming edges' if good_q
                     else 'the recorded-writer query %s selects %s' % (q['body'].name, q['variants']), ctx.where(body, c.bb), props=('C05', 'C06'))
                ko = ev_overlap.match(body, c.bb)
                kr = ev_hr.match(body, c.bb)
                good = ko is not None or kr is not None
                R.ob('VAL-writer-guard', key, good,
                     ('recorded writer found => abort (overlapping write)' if ko is not None else
                      'recorded writer found => abort unless the current task transitively requires it (hidden dependency)') if good
                     else 'a recorded writer does not lead to an abort: neither the overlap guard nor the hidden-dependency guard holds here '
                          '(argument order/provenance of the reachability test, polarity, or an escaping path)',
                     ctx.where(body, c.bb), props=('C05', 'C06') if good and ko is not None else ('C05', 'C06'))
            elif roles.is_readers_of(q):
                n_r += 1
                good_q = q['variants'] == frozenset(['Read'])
                R.ob('STORE-readers-of', key, good_q, 'the recorded-readers query selects Read dependencies on incoming edges' if good_q
                     else 'the recorded-readers query %s selects %s' % (q['body'].name, q['variants']), ctx.where(body, c.bb), props=('C05',))
                k = ev_hw.match(body, c.bb)
                good = k is not None
                R.ob('VAL-readers-guard', key, good, 'every recorded reader must transitively require the writing task, else abort' if good
                     else 'the loop over recorded readers does not abort for a reader that lacks a transitive dependency on the writer '
                          '(missing test, swapped arguments, inverted polarity, or an escaping path)', ctx.where(body, c.bb), props=('C05',))
                if good:
                    src = k[1]
                    sgood = all(o.kind == 'arg' for o in src) or ctx.is_cur(src)
                    R.ob('VAL-readers-guard-src', key, sgood, 'the reachability test is reader -> writer (the writer being the validated task)' if sgood
                         else 'second argument of the reachability test is not the writing task: %s' % body.describe_origins(src), ctx.where(body, c.bb), props=('C05',))
    R.floor('VAL', 'recorded-writer query use sites', n_w, 2, props=('C05', 'C06'))
    R.floor('VAL', 'recorded-readers query use sites', n_r, 1, props=('C05',))


# ================================================================================================
# OPS — read / write / written_to
# ================================================================================================

def find_ops(ctx):
    F = ctx.F
    out = {'read': [], 'write': [], 'written_to': []}
    for b in F.bodies.values():
        if b.crate != 'pie' or b.is_test_code() or b.kind != 'AssocFn' or b.impl_trait == 'pie::ResourceChecker':
            continue
        if not (b.impl_self and type_head(b.impl_self) == ctx.roles.session_adt):
            continue
        adds = [c for c in b.find_calls(lambda c: F.callee_body(c) is not None and ctx.roles.add_dep is not None
                                        and F.callee_body(c).id == ctx.roles.add_dep.id)]
        if not any(_find_resource_dep_new(ctx, b, c.args[3]) is not None for c in adds):
            continue
        if b.find_calls(lambda c: c.qname == 'pie::Resource::read'):
            out['read'].append(b)
        elif b.find_calls(lambda c: c.qname == 'pie::Resource::write'):
            out['write'].append(b)
        else:
            out['written_to'].append(b)
    return out


def rule_ops(ctx):
    R, roles, F = ctx.R, ctx.roles, ctx.F
    if not hasattr(ctx, 'ev_overlap'):
        ctx.ev_overlap, ctx.ev_hw, ctx.ev_hr = make_val_events(ctx)
    ops = find_ops(ctx)
    for kind in ('read', 'write', 'written_to'):
        R.floor('OPS', 'context operation `%s`' % kind, len(ops[kind]), 1, props=('C05', 'C06', 'C08', 'C09', 'C17'))
    ev_add = Event('add-dependency', lambda body, node: None)

    for kind, want_variant, stamp_fn in (('read', 'Read', 'stamp_reader'), ('write', 'Write', 'stamp_writer'), ('written_to', 'Write', 'stamp')):
        for body in ops[kind]:
            key = body.path
            infc = refined_infeasible(ctx, body, assume_cur=True)
            oks = ctx.ok_exit_blocks(body)
            adds = [c for c in body.find_calls(lambda c: F.callee_body(c) is not None and F.callee_body(c).id == roles.add_dep.id)]
            # ---- the dependency is added on every tracked success path, with the right variant
            add_bbs = {c.bb for c in adds}
            bad = None
            for e in oks:
                w = body.must_before(e, ctx.both(infc, lambda n: n in add_bbs))
                if w is not None:
                    bad = w
            R.ob('OPS-add', key, bad is None and bool(adds), 'a dependency is recorded on every success path while a task is executing' if bad is None and adds
                 else 'a success exit is reachable (with a task executing) without recording the dependency:\n' + (body.fmt_path(bad) if bad else ''),
                 ctx.where(body), props=('C08', 'C03', 'C05'))
            for a in adds:
                vs = ctx.dep_variants(body, a.args[3])
                good = vs == {want_variant}
                R.ob('OPS-variant', key, good, '%s records a %s dependency' % (kind, want_variant) if good else '%s records variant(s) %s' % (kind, sorted(vs)),
                     ctx.where(body, a.bb), props=('C08', 'C05', 'C06'))
                src = body.orig_operand(a.args[1])
                good = ctx.is_cur(src) or all(o.kind == 'aggr' for o in src) and _aggr_field_is_cur(ctx, body, a.args[1])
                R.ob('OPS-src', key, bool(good), 'the dependency is attributed to the currently executing task' if good
                     else 'dependency source is not the executing task: %s' % body.describe_origins(src), ctx.where(body, a.bb), props=('C08',))
                # provenance of ResourceDependency::new(resource, checker, stamp)
                rd = _find_resource_dep_new(ctx, body, a.args[3])
                if rd is None:
                    R.undecided('OPS-prov', key, 'cannot find the ResourceDependency constructor feeding add_dependency', ctx.where(body, a.bb), props=('C08', 'C09'))
                    continue
                res_o, chk_o, st_o = (body.orig_operand(x) for x in rd.args)
                good = all(o.kind == 'arg' and o.key == 2 for o in res_o) and len(res_o) == 1
                R.ob('OPS-prov-resource', key, good, 'the recorded resource is the operation\'s resource' if good else 'recorded resource origin: %s' % body.describe_origins(res_o),
                     ctx.where(body, rd.bb), props=('C08',))
                good = all(o.kind == 'arg' and o.key == 3 for o in chk_o) and len(chk_o) == 1
                R.ob('OPS-prov-checker', key, good, 'the recorded checker is the one the task passed' if good else 'recorded checker origin: %s' % body.describe_origins(chk_o),
                     ctx.where(body, rd.bb), props=('C08', 'C09'))
                scs = [body.calls[o.key] for o in st_o if o.kind == 'call']
                good = len(st_o) == 1 and len(scs) == 1 and scs[0].qname == 'pie::ResourceChecker::' + stamp_fn
                R.ob('OPS-prov-stamp', key, good, 'the recorded stamp is the one just computed by %s' % stamp_fn if good else 'recorded stamp origin: %s' % body.describe_origins(st_o),
                     ctx.where(body, rd.bb), props=('C08', 'C09'))
                if not good:
                    continue
                sc = scs[0]
                c0 = body.orig_operand(sc.args[0])
                r0 = body.orig_operand(sc.args[1])
                good = all(o.kind == 'arg' and o.key == 3 for o in c0) and all(o.kind == 'arg' and o.key == 2 for o in r0)
                R.ob('OPS-stamp-args', key, good, 'the stamp is taken by the task\'s checker on the operation\'s resource' if good
                     else 'stamp taken with checker %s on resource %s' % (body.describe_origins(c0), body.describe_origins(r0)), ctx.where(body, sc.bb), props=('C09',))
                dst_o = body.orig_operand(a.args[2])
                # the node the dependency is recorded on is the node of the operation's own resource
                gcs = [body.calls[o.key] for o in dst_o if o.kind == 'call' and o.key in body.calls]
                good = len(gcs) == 1 and len(dst_o) == 1 and len(gcs[0].args) > 1 and roles.get_or_create_resource is not None and F.callee_body(gcs[0]) is not None and \
                    F.callee_body(gcs[0]).id == roles.get_or_create_resource.id and all(o.kind == 'arg' and o.key == 2 for o in body.orig_operand(gcs[0].args[1])) and bool(body.orig_operand(gcs[0].args[1]))
                R.ob('OPS-dst-node', key, good, 'the dependency is recorded on the graph node of the operation\'s resource' if good
                     else 'the graph node used for the dependency is looked up with %s, not with the operation\'s resource' % (body.describe_origins(body.orig_operand(gcs[0].args[1])) if gcs and len(gcs[0].args) > 1 else body.describe_origins(dst_o)),
                     ctx.where(body, a.bb), props=('C08', 'C15', 'C05', 'C06'))
                _ops_specific(ctx, body, kind, key, sc, a, dst_o, infc, oks)
            _ops_tracker(ctx, body, kind, key, infc, oks)


def _aggr_field_is_cur(ctx, body, op):
    return False


def _find_resource_dep_new(ctx, body, op, depth=0):
    """Follow a Dependency operand back to the ResourceDependency::new call that built its payload."""
    if op[0] not in ('c', 'm') or depth > 4:
        return None
    for d in body.defs.get(op[1][0], []):
        if d[0] == 'call':
            c = d[2]
            if c.qname.endswith('ResourceDependency::new') and len(c.args) == 3:
                return c
            for a in c.args:
                r = _find_resource_dep_new(ctx, body, a, depth + 1)
                if r is not None:
                    return r
        elif d[0] == 'stmt' and d[3]['k'] in ('use', 'cast'):
            r = _find_resource_dep_new(ctx, body, ctx.F.operand(d[3]['op']), depth + 1)
            if r is not None:
                return r
        elif d[0] == 'stmt' and d[3]['k'] == 'aggr':
            for o in d[3]['ops']:
                r = _find_resource_dep_new(ctx, body, ctx.F.operand(o), depth + 1)
                if r is not None:
                    return r
    return None


def _ops_specific(ctx, body, kind, key, sc, add, dst_o, infc, oks):
    R, roles, F = ctx.R, ctx.roles, ctx.F
    if kind == 'read':
        rds = body.find_calls(lambda c: c.qname == 'pie::Resource::read')
        rd_bbs = {c.bb for c in rds}
        reader_o = body.orig_operand(sc.args[2])
        good = len(rds) == 1 and ctx.base_call_bbs(reader_o) == rd_bbs and all(o.kind == 'call' for o in reader_o)
        R.ob('OPS-read-reader', key, good, 'the stamp is taken from the reader produced by the single Resource::read of this operation' if good
             else 'stamp_reader is given %s; Resource::read calls: %d' % (body.describe_origins(reader_o), len(rds)), ctx.where(body, sc.bb), props=('C09',))
        # the reader returned is that very reader
        ret_ok = True
        for d in body.defs.get(0, []):
            if d[0] == 'stmt' and d[3]['k'] == 'aggr' and d[3]['ak'].get('variant') == 'Ok':
                ro = body.orig_operand(F.operand(d[3]['ops'][0]))
                if not (ctx.base_call_bbs(ro) == rd_bbs and all(o.kind == 'call' for o in ro)):
                    ret_ok = False
        R.ob('OPS-read-returned', key, ret_ok and len(rds) == 1, 'the reader handed to the task is the reader that was stamped' if ret_ok
             else 'the returned reader is not the stamped one', ctx.where(body), props=('C09',))
        # stamp before the reader is returned: stamp_reader dominates tracked ok exits (follows from OPS-add + provenance)
        # hidden-dependency guard before the success exit
        hr_blocks = ctx.ev_hr.blocks_with(body, lambda k: k[0] == dst_o)
        bad = None
        for e in oks:
            w = body.must_before(e, ctx.both(infc, lambda n: n in hr_blocks))
            if w is not None:
                bad = w
        R.ob('OPS-read-guard', key, bad is None, 'the hidden-dependency guard (recorded writer must be transitively required by the reader) precedes every tracked success exit, '
             'for the node the dependency is recorded on' if bad is None else 'read can return (with a task executing) without the hidden-dependency guard:\n' + body.fmt_path(bad),
             ctx.where(body), props=('C05',))
    else:
        ov = ctx.ev_overlap.blocks_with(body, lambda k: k[0] == dst_o)
        hw = ctx.ev_hw.blocks_with(body, lambda k: k[0] == dst_o and (ctx.is_cur(k[1])))
        if kind == 'write':
            # the tracked path only: with no task executing the write may be done by a separate copy of the tail (nothing to validate or record there)
            live = body.reach([0], avoid=infc)
            wrs = body.find_calls(lambda c: c.qname == 'pie::Resource::write' and c.bb in live)
            wfn = [c for c in body.find_calls(lambda c: c.qname in CLOSURE_CALLS and c.bb in live)
                   if all(o.kind == 'arg' for o in body.orig_operand(c.args[0])) and body.orig_operand(c.args[0])]
            targets = [('Resource::write', c) for c in wrs] + [('the task\'s write function', c) for c in wfn]
            R.ob('OPS-write-shape', key, len(wrs) == 1 and len(wfn) == 1, 'one writer creation and one invocation of the write function' if len(wrs) == 1 and len(wfn) == 1
                 else 'Resource::write calls: %d, write_fn invocations: %d' % (len(wrs), len(wfn)), ctx.where(body), props=('C05', 'C06', 'C09', 'C19'))
        else:
            targets = [('ResourceChecker::stamp', sc)]
        for what, t in targets:
            w1 = body.must_before(t.bb, ctx.both(infc, lambda n: n in ov))
            R.ob('OPS-%s-overlap-first' % kind, key + '#' + what, w1 is None, 'the overlapping-write guard precedes %s' % what if w1 is None
                 else '%s is reachable (with a task executing) before the overlapping-write guard ran:\n%s' % (what, body.fmt_path(w1)), ctx.where(body, t.bb), props=('C06', 'C19'))
            w2 = body.must_before(t.bb, ctx.both(infc, lambda n: n in hw))
            R.ob('OPS-%s-hidden-first' % kind, key + '#' + what, w2 is None, 'the hidden-dependency guard (readers must require the writer) precedes %s' % what if w2 is None
                 else '%s is reachable (with a task executing) before the hidden-dependency guard ran:\n%s' % (what, body.fmt_path(w2)), ctx.where(body, t.bb), props=('C05', 'C19'))
        if kind == 'write' and len(wrs) == 1 and len(wfn) == 1:
            wr, fn = wrs[0], wfn[0]
            # write_fn(&mut writer) before stamp_writer(writer): same writer
            w = body.must_before(sc.bb, ctx.both(infc, lambda n: n == fn.bb))
            R.ob('OPS-write-order', key, w is None, 'the stamp is taken after the task\'s write function has run' if w is None
                 else 'stamp_writer is reachable before the write function ran:\n' + body.fmt_path(w), ctx.where(body, sc.bb), props=('C09',))
            wo = body.orig_operand(sc.args[2])
            tup = body.orig_operand(fn.args[1])
            f0 = set()
            for t in tup:
                f0 |= body._project(t, [('f', 0, '0', 'tuple')], None)
            good = ctx.base_call_bbs(wo) == {wr.bb} and ctx.base_call_bbs(f0) == {wr.bb}
            R.ob('OPS-write-writer', key, good, 'the writer given to the write function and the writer stamped are the one created by Resource::write' if good
                 else 'writer given to write_fn: %s, writer stamped: %s' % (body.describe_origins(f0), body.describe_origins(wo)), ctx.where(body, sc.bb), props=('C09',))


def _ops_tracker(ctx, body, kind, key, infc, oks):
    R, roles, F = ctx.R, ctx.roles, ctx.F
    sname, ename = ('read_start', 'read_end') if kind == 'read' else ('write_start', 'write_end')
    ev_s = ev_trait_call(ctx, TRACKER + sname, sname)
    starts = ev_s.blocks_with(body)
    ends = set()
    stamp_ok = True
    for sb in starts:
        sc = body.call_at(sb)
        if sc is not None and sc.qname != TRACKER + sname:
            for e in tracking_end_calls(ctx, body, sc):
                cb = F.callee_body(e)
                if cb is not None and closure_calls_tracker(ctx, cb, ename):
                    ends.add(e.bb)
                    tup = body.orig_operand(e.args[1])
                    f1 = set()
                    for t in tup:
                        f1 |= body._project(t, [('f', 1, '1', 'tuple')], None)
                    if not all(o.kind == 'call' and body.calls[o.key].qname.startswith('pie::ResourceChecker::stamp') for o in f1):
                        stamp_ok = False
    for c in body.find_calls(lambda c: c.qname == TRACKER + ename):
        ends.add(c.bb)
        so = body.orig_operand(c.args[3]) if len(c.args) > 3 else frozenset()
        if not all(o.kind == 'call' and body.calls[o.key].qname.startswith('pie::ResourceChecker::stamp') for o in so):
            stamp_ok = False
    bad = None
    for e in oks:
        w = body.must_before(e, ctx.both(infc, lambda n: n in starts))
        if w is not None:
            bad = w
    R.ob('OPS-track-start', key, bad is None and bool(starts), '%s is emitted on every tracked success path' % sname if bad is None and starts
         else 'a tracked success path has no %s event' % sname, ctx.where(body), props=('C17',))
    bad = None
    for e in oks:
        w = body.must_before(e, ctx.both(infc, lambda n: n in ends))
        if w is not None:
            bad = w
    R.ob('OPS-track-end', key, bad is None and bool(ends), '%s is emitted on every tracked success path' % ename if bad is None and ends
         else 'a tracked success path returns without the %s event:\n%s' % (ename, body.fmt_path(bad) if bad else ''), ctx.where(body), props=('C17',))
    R.ob('OPS-track-stamp', key, stamp_ok, '%s carries the stamp that was computed' % ename if stamp_ok else '%s carries a value that is not the computed stamp' % ename,
         ctx.where(body), props=('C17',))
    # an end never without its start
    for eb in ends:
        w = body.must_before(eb, ctx.both(infc, lambda n: n in starts))
        R.ob('OPS-track-nested', key + '#%s' % ename, w is None, 'every %s is preceded by its %s' % (ename, sname) if w is None else 'end event reachable without start', ctx.where(body, eb), props=('C17',))
