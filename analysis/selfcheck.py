"""Engine self-check on /verif/fixtures/engine_fixture: the primitives and generic detectors must
report exactly the planted examples. Run (cached) before every property check; a mismatch makes the
check fail closed as CHECKER-BLIND."""
import os
import sys

HERE = os.path.dirname(os.path.abspath(__file__))
sys.path.insert(0, HERE)
import extract  # noqa: E402
from core import Facts  # noqa: E402

FIX = os.path.join(os.path.dirname(HERE), 'fixtures', 'engine_fixture')


def run():
    fd = extract.facts_dir(FIX, 'fixture', quiet=True)
    F = Facts(fd)
    problems = []

    def body(name):
        b = F.body_by_path('engine_fixture::' + name)
        if b is None:
            problems.append('fixture function %s not extracted' % name)
        return b

    def calls(b, name):
        return {c.bb for c in b.find_calls(lambda c: c.qname == 'engine_fixture::' + name)}

    def expect(cond, msg):
        if not cond:
            problems.append(msg)
    b = body('must_before_violated')
    if b:
        w = [c for c in b.find_calls(lambda c: c.qname == 'engine_fixture::work')][0]
        expect(b.must_before(w.bb, lambda n: n in calls(b, 'open')) is not None, 'must_before: planted violation not found')
    b = body('must_before_holds')
    if b:
        for w in b.find_calls(lambda c: c.qname == 'engine_fixture::work'):
            expect(b.must_before(w.bb, lambda n: n in calls(b, 'open')) is None, 'must_before: false alarm')
            expect(b.must_after(w.bb, lambda n: n in calls(b, 'close')) is None, 'must_after: false alarm')
    b = body('must_after_violated')
    if b:
        w = [c for c in b.find_calls(lambda c: c.qname == 'engine_fixture::work')][0]
        expect(b.must_after(w.bb, lambda n: n in calls(b, 'close')) is not None, 'must_after: planted violation not found')
    b = body('must_after_holds_with_panic')
    if b:
        w = [c for c in b.find_calls(lambda c: c.qname == 'engine_fixture::work')][0]
        expect(b.must_after(w.bb, lambda n: n in calls(b, 'close')) is None, 'must_after: a panic path was counted as a normal exit')
    b = body('guard')
    if b:
        gs = [g for g in b.guards.values() if g.kind == 'enum']
        expect({tuple(sorted(g.variants())) for g in gs if g.variants()} >= {('Some',), ('None',)}, 'guards: Option variants not recognised')
        none_e = [('e', g.bb, g.k) for g in gs if g.variants() == frozenset(['None'])]
        seen = b.reach(none_e)
        expect(not any(r in seen for r in b.returns()), 'guards: the None edge should only diverge')
    b = body('correlated')
    if b:
        def cur_none(n):
            if isinstance(n, tuple):
                g = b.guard_of(n[1], n[2])
                return g is not None and g.kind == 'enum' and g.variants() == frozenset(['None']) and all(o.kind == 'arg' for o in g.origins)
            return False
        avoid, seen = b.refine(cur_none)
        zero_ret = [bb for bb, blk in enumerate(b.blocks) if any(s['k'] == 'a' and s['p']['l'] == 0 and not s['p']['p'] and s['rv']['k'] == 'use' and 'k' in s['rv']['op']
                                                                  and s['rv']['op']['k'].get('int') == '0' for s in blk['stmts'])]
        expect(zero_ret and not any(z in seen for z in zero_ret), 'refine: correlated Option branch not pruned')
    b = body('provenance')
    if b:
        os_ = b.orig_local(0)
        expect(len(os_) == 1 and all(o.kind == 'call' and b.calls[o.key].qname == 'engine_fixture::make' for o in os_), 'ORIG: provenance through clone/Box::new lost')
    b = body('uses_wrapper')
    if b:
        from core import Event
        ev = Event('open', lambda body, node: ('k',) if not isinstance(node, tuple) and body.call_at(node) is not None and body.call_at(node).qname == 'engine_fixture::open' else None)
        w = [c for c in b.find_calls(lambda c: c.qname == 'engine_fixture::work')][0]
        expect(b.must_before(w.bb, lambda n: n in ev.blocks_with(b)) is None, 'summaries: helper that must-calls the event not recognised')
    # generic detectors
    import rules_misc
    import rules_protocol
    from report import Report

    class R0:
        pass
    ctx = rules_protocol.Ctx(F, None, Report())
    sites = rules_misc.order_leak_sites(ctx, crates=('engine_fixture',))
    names = sorted({b.name for b, c in sites})
    expect(names == ['leak_order', 'leak_sorted'], 'N1: order-leak sites found in %s, expected leak_order and leak_sorted' % names)
    for b, c in sites:
        ok, _ = rules_misc.order_site_sanitised(ctx, b, c)
        expect(ok == (b.name == 'leak_sorted'), 'N1: sanitizer verdict wrong for %s' % b.name)
    nd = [(b.name, c.qname) for b in F.bodies.values() for c in b.calls.values() if any(c.qname.startswith(p) for p in rules_misc.NONDET_PREFIXES)]
    expect(('clock', 'std::time::SystemTime::now') in nd, 'N2: clock source not found')
    casts = [b.name for b in F.bodies.values() for blk in b.blocks for s in blk['stmts'] if s['k'] == 'a' and s['rv']['k'] == 'cast' and 'PointerExposeProvenance' in s['rv']['ck']]
    expect('ptr_int' in casts, 'N2: pointer-to-integer cast not found')
    return problems, F.stats()['bodies']


if __name__ == '__main__':
    p, n = run()
    print('fixture bodies:', n)
    for x in p:
        print('BLIND:', x)
    sys.exit(1 if p else 0)
