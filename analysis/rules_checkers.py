"""Rule groups: built-in output checkers (C12, abstract evaluation) and file checkers (C13)."""
import itertools

import absint
from core import type_head
from roles import closure_result_under_variant
from rules_build import ancestors
from rules_protocol import guard_edges_on_call

OC = 'pie::OutputChecker'
RELATIONS = {
    # checker -> relation on (o1 stamped, o2 checked); results use atoms x / y
    'pie::task::EqualsChecker': ('plain', lambda o1, o2: absint.v_eq(o1, o2), 'o1 == o2'),
    'pie::task::OkEqualsChecker': ('result', lambda o1, o2: (o1[1] == o2[1]) and (o1[1] == 'Err' or absint.v_eq(o1[2], o2[2])), 'equal Ok payloads; all errors equivalent'),
    'pie::task::ErrEqualsChecker': ('result', lambda o1, o2: (o1[1] == o2[1]) and (o1[1] == 'Ok' or absint.v_eq(o1[2], o2[2])), 'equal Err payloads; all successes equivalent'),
    'pie::task::ResultChecker': ('result', lambda o1, o2: o1[1] == o2[1], 'same Ok/Err-ness'),
    'pie::task::AlwaysConsistent': ('plain', lambda o1, o2: True, 'always'),
}


def cases(kind):
    if kind == 'plain':
        return [(('atom', 'x'), ('atom', 'x')), (('atom', 'x'), ('atom', 'y'))]
    out = []
    for t1, t2 in itertools.product(('Ok', 'Err'), repeat=2):
        if t1 == t2:
            out.append((('res', t1, ('atom', 'x')), ('res', t2, ('atom', 'x'))))
            out.append((('res', t1, ('atom', 'x')), ('res', t2, ('atom', 'y'))))
        else:
            out.append((('res', t1, ('atom', 'x')), ('res', t2, ('atom', 'y'))))
    return out


def show(v):
    if v[0] == 'res':
        return '%s(%s)' % (v[1], show(v[2]))
    if v[0] == 'atom':
        return v[1]
    if v[0] == 'opt':
        return 'None' if v[1] is None else 'Some(%s)' % show(v[1])
    return str(v[1:] if len(v) > 1 else v[0])


def rule_output_checkers(ctx):
    R, F = ctx.R, ctx.F
    # the built-in checkers are part of what C01 quantifies over (tasks whose outputs depend only on what their checkers
    # *are documented to* observe): a checker that observes less than documented lets a stale output be reused
    P = ('C12', 'C01')
    n = 0
    for name, (kind, rel, doc) in RELATIONS.items():
        st = [b for b in F.bodies.values() if b.impl_trait == OC and b.impl_self == name and b.name == 'stamp']
        ck = [b for b in F.bodies.values() if b.impl_trait == OC and b.impl_self == name and b.name == 'check']
        if len(st) != 1 or len(ck) != 1:
            R.missing('C12-eval', name, 'stamp/check of %s not found' % name, props=P)
            continue
        for o1, o2 in cases(kind):
            n += 1
            key = '%s#stamp(%s),check(%s)' % (name.split('::')[-1], show(o1), show(o2))
            try:
                stamp = absint.evaluate(F, st[0], [('unit',), o1])
                res = absint.evaluate(F, ck[0], [('unit',), o2, stamp])
            except absint.Undecided as e:
                R.undecided('C12-eval', key, 'abstract evaluation undecided: %s' % e, ctx.where(ck[0]), props=P)
                continue
            if res[0] != 'opt':
                R.undecided('C12-eval', key, 'check did not evaluate to an Option: %r' % (res,), ctx.where(ck[0]), props=P)
                continue
            got = res[1] is None
            want = rel(o1, o2)
            R.ob('C12-eval', key, got == want, '%s: consistent=%s as documented (%s); stamp = %s' % (name.split('::')[-1], got, doc, show(stamp)) if got == want
                 else '%s reports %s for stamp(%s) vs check(%s), documented relation (%s) says %s' % (name.split('::')[-1], 'consistent' if got else 'inconsistent', show(o1), show(o2), doc,
                                                                                                 'consistent' if want else 'inconsistent'), ctx.where(ck[0]), props=P)
    R.floor('C12-eval', 'checker x case evaluations', n, 21, props=P)
    # object-safe proxy delegates
    for b in F.bodies.values():
        if b.impl_trait != 'pie::trait_object::task::OutputCheckerObj' or b.kind != 'AssocFn':
            continue
        if b.name == 'stamp_obj':
            cs = b.find_calls(lambda c: c.qname == OC + '::stamp')
            good = len(cs) == 1 and all(o.kind == 'arg' and o.key == 1 for o in b.orig_operand(cs[0].args[0])) and all(o.kind == 'arg' and o.key == 2 for o in b.orig_operand(cs[0].args[1])) \
                and ctx.base_call_bbs(b.orig_local(0)) == {cs[0].bb}
            R.ob('C12-proxy', b.path, good, 'stamp_obj boxes self.stamp(output)' if good else 'stamp_obj does not return the boxed stamp of its output', ctx.where(b), props=P)
        elif b.name == 'check_obj':
            cs = b.find_calls(lambda c: c.qname == OC + '::check')
            dc = b.find_calls(lambda c: c.qname == 'dyn std::any::Any::downcast_ref')
            good = len(cs) == 1 and len(dc) == 1
            if good:
                c = cs[0]
                good = all(o.kind == 'arg' and o.key == 1 for o in b.orig_operand(c.args[0])) and all(o.kind == 'arg' and o.key == 2 for o in b.orig_operand(c.args[1])) \
                    and ctx.base_call_bbs(b.orig_operand(c.args[2])) == {dc[0].bb}
                asany = [b.calls[o.key] for o in b.orig_operand(dc[0].args[0]) if o.kind == 'call']
                good = good and len(asany) == 1 and (asany[0].self_ty or '').startswith('dyn ') and all(o.kind == 'arg' and o.key == 3 for o in b.orig_operand(asany[0].args[0]))
                # None stays None: result derived from check through Option::map only
                ro = b.orig_local(0)
                maps = [b.calls[o.key] for o in ro if o.kind == 'call']
                via_map = len(maps) == 1 and maps[0].qname == 'std::option::Option::map' and ctx.base_call_bbs(b.orig_operand(maps[0].args[0])) == {c.bb}
                # the same mapping written as a match: Some(i) => Some(Box::new(i)), None => None
                via_match = False
                if not maps and ro and all(o.kind == 'aggr' for o in ro):
                    from rules_protocol import guard_edges_on_call
                    some_e = {n for n, g in guard_edges_on_call(b, c) if g.variants() == frozenset(['Some'])}
                    none_e = {n for n, g in guard_edges_on_call(b, c) if g.variants() == frozenset(['None'])}
                    via_match = bool(some_e) and bool(none_e)
                    for o in ro:
                        st = b.blocks[o.key[0]]['stmts'][o.key[1]]['rv']
                        v = st['ak'].get('variant')
                        if v == 'Some':
                            po = b.orig_operand(F.operand(st['ops'][0]))
                            if ctx.base_call_bbs(po) != {c.bb} or o.key[0] in b.reach([0], avoid=lambda n: n in some_e):
                                via_match = False
                        elif v == 'None':
                            if o.key[0] in b.reach([0], avoid=lambda n: n in none_e):
                                via_match = False
                        else:
                            via_match = False
                good = good and (via_map or via_match)
            R.ob('C12-proxy', b.path, good, 'check_obj downcasts the stamp to the checker\'s stamp type and returns self.check(output, stamp) (None stays None)' if good
                 else 'check_obj does not delegate to check on the downcast stamp', ctx.where(b), props=P)


# ================================================================================================
# C13 file checkers
# ================================================================================================

FILE_CHECKERS = {'pie::resource::file::ModifiedChecker': 'M', 'pie::resource::file::ExistsChecker': 'E', 'pie::resource::file::hash_checker::HashChecker': 'H'}


def mutable_uses_of_param(body, idx):
    """calls that receive `&mut <param idx>` (re-borrowed mutably)"""
    out = []
    for c in body.calls.values():
        if body.blocks[c.bb]['cleanup']:
            continue
        for a in c.args:
            if a[0] not in ('c', 'm') or a[1][1]:
                continue
            l = a[1][0]
            seen = set()
            while True:
                if l == idx and body.local_ty(idx).startswith('&mut'):
                    out.append(c)
                    break
                ds = body.defs.get(l, [])
                if len(ds) != 1 or ds[0][0] != 'stmt' or l in seen:
                    break
                seen.add(l)
                rv = ds[0][3]
                if rv['k'] == 'ref' and rv['mut']:
                    if rv['pl']['l'] == idx:
                        out.append(c)
                        break
                    l = rv['pl']['l']
                    continue
                if rv['k'] == 'use' and ('m' in rv['op'] or 'c' in rv['op']):
                    pl = rv['op'].get('m') or rv['op'].get('c')
                    l = pl['l']
                    continue
                break
    return out


def fs_helper_kind(ctx, call):
    """'metadata' for std::fs::metadata or a local function wrapping it (-> Result<Option<Metadata>, _>), 'exists' for a local function
    that answers whether a path exists (-> Result<bool, _>, reaching the metadata query); found by signature and callees, wherever it lives"""
    F = ctx.F
    if call.qname == 'std::fs::metadata':
        return 'metadata'
    if call.qname == 'pie::resource::file::OpenRead::exists':
        return 'exists'
    cb = F.callee_body(call)
    if cb is None or cb.crate != 'pie' or cb.kind != 'Fn':
        return None
    cache = F.__dict__.setdefault('_fs_helper', {})
    if cb.id not in cache:
        def reaches_md(b_, depth=0):
            for c_ in b_.calls.values():
                if c_.qname == 'std::fs::metadata':
                    return True
                x_ = F.callee_body(c_)
                if x_ is not None and x_.crate == 'pie' and x_.id != b_.id and depth < 3 and reaches_md(x_, depth + 1):
                    return True
            return False
        rt = cb.local_ty(0)
        kind = None
        if reaches_md(cb):
            if 'std::option::Option<std::fs::Metadata>' in rt:
                kind = 'metadata'
            elif rt.startswith('std::result::Result<bool'):
                kind = 'exists'
        cache[cb.id] = kind
    return cache[cb.id]


def observers(ctx, body, depth=0, seen=None):
    """kinds of observation a checker method makes (transitively through pie functions)"""
    F = ctx.F
    seen = seen if seen is not None else set()
    if body.id in seen or depth > 5:
        return set()
    seen.add(body.id)
    out = set()
    for x in F.with_closures(body):
        for c in x.calls.values():
            q = c.qname
            if q == 'std::fs::Metadata::modified':
                out.add('M')
            elif q.startswith('sha2::') or q in ('std::io::copy',):
                out.add('H')
            elif fs_helper_kind(ctx, c) == 'exists' or (q == 'std::option::Option::is_some' and any(
                    fs_helper_kind(ctx, xx) == 'metadata' for xx in ancestors(x, x.orig_operand(c.args[0])).values())):
                out.add('E')
            cb = F.callee_body(c)
            if cb is not None and cb.crate == 'pie' and cb.id != body.id:
                sub = observers(ctx, cb, depth + 1, seen)
                # an existence test used only as a guard inside another observer does not make it an existence observer
                out |= (sub - {'E'}) if (sub - {'E'}) else sub
    return out


def rule_file_checkers(ctx):
    R, F = ctx.R, ctx.F
    P = ('C13',)
    have_hash = any(b.impl_self == 'pie::resource::file::hash_checker::HashChecker' for b in F.bodies.values())
    methods = {}
    for b in F.bodies.values():
        if b.impl_trait == 'pie::ResourceChecker' and b.impl_self in FILE_CHECKERS and b.kind == 'AssocFn':
            methods[(b.impl_self, b.name)] = b
    R.floor('F', 'file checker methods', len(methods), 15 if have_hash else 10, props=P)
    for (chk, name), b in sorted(methods.items()):
        kind = FILE_CHECKERS[chk]
        inf = ctx.infeasible(b)
        key = b.path
        if name in ('stamp', 'stamp_reader', 'stamp_writer', 'check'):
            obs = observers(ctx, b)
            main = obs - {'E'} if kind != 'E' else obs
            good = main == {kind}
            R.ob('F4-observer', key, good, '%s observes %s' % (name, {'M': 'the modification time', 'E': 'existence', 'H': 'content / listing hash'}[kind]) if good
                 else '%s of the %s checker observes %s: the stamp routes no longer agree' % (name, {'M': 'modified-time', 'E': 'existence', 'H': 'hash'}[kind], sorted(obs)), ctx.where(b), props=P)
        if name == 'stamp_reader':
            uses = [c for c in mutable_uses_of_param(b, 3) if c.qname != 'pie::resource::file::OpenRead::rewind']
            rew = {c.bb for c in b.find_calls(lambda c: c.qname == 'pie::resource::file::OpenRead::rewind' and all(o.kind == 'arg' and o.key == 3 for o in b.orig_operand(c.args[0])))}
            bad = None
            for u in uses:
                w = b.must_after(u.bb, ctx.both(inf, lambda n: n in rew))
                if w is not None:
                    bad = w
            R.ob('F1-rewind', key, bad is None, ('the reader is rewound after being read, on every exit (also when hashing failed)' if uses else 'the reader is not consumed while stamping') if bad is None
                 else 'the reader handed to the task can be left positioned past the start:\n' + b.fmt_path(bad), ctx.where(b), props=P)
        if name == 'stamp_writer':
            # content / metadata of the descriptor is used only after the path was confirmed to exist, and reading starts at offset 0
            file_uses = [c for c in b.calls.values() if not b.blocks[c.bb]['cleanup'] and any(any(o.kind == 'arg' and o.key == 3 for o in b.orig_operand(a)) for a in c.args)]
            ex = {c.bb for c in b.find_calls(lambda c: fs_helper_kind(ctx, c) is not None and c.args
                                             and all(o.kind == 'arg' and o.key == 2 for o in b.orig_operand(c.args[0])))}
            if file_uses:
                bad = [u for u in file_uses if b.must_before(u.bb, ctx.both(inf, lambda n: n in ex)) is not None]
                R.ob('F2-exists-first', key, not bad, 'the (possibly stale) descriptor is consulted only after the path was confirmed to exist' if not bad
                     else 'the descriptor is used (%s) without first checking that the path still exists' % bad[0].qname, ctx.where(b), props=P)
                # on the not-exists edge the stamp is the "absent" stamp
                readers = [u for u in file_uses if u.qname in ('std::io::BufReader::new', 'std::io::copy', 'std::io::Read::read', 'std::io::Read::read_to_end')]
                rew = {c.bb for c in b.find_calls(lambda c: c.qname == 'std::io::Seek::rewind' and all(o.kind == 'arg' and o.key == 3 for o in b.orig_operand(c.args[0])))}
                for u in readers:
                    w = b.must_before(u.bb, ctx.both(inf, lambda n: n in rew))
                    R.ob('F2-rewind', key, w is None, 'the just-written file is rewound before its content is hashed' if w is None
                         else 'the content of the writer is read from wherever the task left the cursor (stamp differs from the other routes)', ctx.where(b, u.bb), props=P)
        if name == 'check':
            cmps = []
            for (bb, k), gd in b.guards.items():
                if gd.kind != 'bool':
                    continue
                for o in gd.origins:
                    if o.kind == 'op':
                        rv = b.blocks[o.key[0]]['stmts'][o.key[1]]['rv']
                        if rv['k'] == 'bin' and rv['bop'] in ('Ne', 'Eq'):
                            cmps.append((('e', bb, k), gd, rv['bop'], [b.orig_operand(F.operand(rv['a'])), b.orig_operand(F.operand(rv['b']))]))
                    elif o.kind == 'call' and b.calls[o.key].qname in ('std::cmp::PartialEq::ne', 'std::cmp::PartialEq::eq'):
                        c = b.calls[o.key]
                        cmps.append((('e', bb, k), gd, 'Ne' if c.qname.endswith('ne') else 'Eq', [b.orig_operand(a) for a in c.args]))
            somes = [d[1] for l, ds in b.defs.items() for d in ds if d[0] == 'stmt' and d[3]['k'] == 'aggr' and d[3]['ak'].get('variant') == 'Some' and 'Option' in d[3]['ak'].get('adt', '')]
            nones = [d[1] for l, ds in b.defs.items() for d in ds if d[0] == 'stmt' and d[3]['k'] == 'aggr' and d[3]['ak'].get('variant') == 'None' and 'Option' in d[3]['ak'].get('adt', '')]
            # only the Option that is returned counts (an Option built on the way, e.g. `Some(modified_time)` of the observation, does not)
            ret_aggr = set()
            for d_ in b.defs.get(0, []):
                if d_[0] == 'stmt' and d_[3]['k'] == 'aggr' and d_[3]['ak'].get('variant') == 'Ok' and d_[3]['ops']:
                    ret_aggr |= {o_.key[0] for o_ in b.orig_operand(F.operand(d_[3]['ops'][0])) if o_.kind == 'aggr' and not o_.path}
            if ret_aggr:
                somes = [x for x in somes if x in ret_aggr]
                nones = [x for x in nones if x in ret_aggr]
            differ_edges = {e for e, gd, opn, sides in cmps if gd.truth() == (opn == 'Ne')}
            same_edges = {e for e, gd, opn, sides in cmps if gd.truth() == (opn == 'Eq')}
            stamp_cmp = any(any(all(o.kind == 'arg' and o.key == 4 for o in s) and s for s in sides) for _, _, _, sides in cmps)
            seen = b.reach([0], avoid=ctx.both(inf, lambda n: n in differ_edges))
            bad_some = [x for x in somes if x in seen]
            seen = b.reach([0], avoid=ctx.both(inf, lambda n: n in same_edges))
            bad_none = [x for x in nones if x in seen]
            good = bool(cmps) and stamp_cmp and bool(somes) and not bad_some and not bad_none
            R.ob('F4-polarity', key, good, 'check reports an inconsistency exactly when the fresh observation differs from the stamp' if good
                 else 'check does not report `fresh observation != stamp` (comparison missing, against the wrong value, or inverted)', ctx.where(b), props=P)
    # F3: opening a path for writing
    wr = [b for b in F.bodies.values() if b.impl_trait == 'pie::Resource' and b.impl_self == 'std::path::PathBuf' and b.name == 'write']
    R.floor('F3', 'PathBuf::write', len(wr), 1, props=P)
    for b in wr:
        inf = ctx.infeasible(b)
        opens = b.find_calls(lambda c: c.qname in ('std::fs::OpenOptions::open', 'std::fs::File::create', 'std::fs::File::open', 'std::fs::File::options', 'std::fs::File::create_new'))
        opens = [c for c in opens if c.qname != 'std::fs::File::options']
        isdir = b.find_calls(lambda c: c.qname == 'std::fs::Metadata::is_dir')
        good = bool(isdir) and bool(opens)
        if good:
            te = [n for n, gd in guard_edges_on_call(b, isdir[0]) if gd.truth() is True]
            for e in te:
                _av, seen = b.refine_from(inf, e)  # a flag assigned on this edge and tested later is followed (reaching definitions)
                if any(o.bb in seen for o in opens):
                    good = False
                for d in b.defs.get(0, []):
                    if d[1] in seen and d[0] == 'stmt' and d[3]['k'] == 'aggr' and d[3]['ak'].get('variant') == 'Ok':
                        good = False
            good = good and bool(te)
            # the directory test concerns the path being opened and comes first
            for o in opens:
                if b.must_before(o.bb, ctx.both(inf, lambda n: n == isdir[0].bb)) is not None:
                    # allowed only when no metadata exists (path absent): guard `metadata is None`
                    none_e = {('e', bb, k) for (bb, k), gd in b.guards.items() if gd.kind == 'enum' and gd.variants() == frozenset(['None'])}
                    if b.must_before(o.bb, ctx.both(inf, lambda n: n == isdir[0].bb or n in none_e)) is not None:
                        good = False
        R.ob('F3-refuse-dir', b.path, good, 'a directory at the path is refused before anything is opened' if good else 'a directory at the path is not refused before the open call', ctx.where(b), props=P)
        flags = {}
        for c in b.find_calls(lambda c: c.impl_self == 'std::fs::OpenOptions' and c.name in ('write', 'create', 'truncate', 'read', 'append', 'create_new')):
            v = c.args[1][1].get('int') if c.args[1][0] == 'k' else None
            flags[c.name] = v
        if any(c.qname == 'std::fs::File::create' for c in opens):
            flags.update({'write': '1', 'create': '1', 'truncate': '1'})
        good = flags.get('write') == '1' and flags.get('create') == '1' and flags.get('truncate') == '1' and flags.get('append') in (None, '0')
        R.ob('F3-create-truncate', b.path, good, 'the file is opened write+create+truncate' if good else 'open options are %s: the file is not created-or-truncated' % flags, ctx.where(b), props=P)
        R.ob('F3-readable', b.path, flags.get('read') == '1', 'the writer is also readable, so the content route of a just-used writer can agree with the other routes' if flags.get('read') == '1'
             else 'the writer is not opened for reading: hashing a just-used writer fails or differs', ctx.where(b), props=P)
        for o in opens:
            po = b.orig_operand(o.args[-1])
            good = all(x.kind == 'arg' and x.key == 1 for x in po) and bool(po)
            R.ob('F3-path', b.path, good, 'the path opened is the resource itself' if good else 'another path is opened', ctx.where(b, o.bb), props=P)
    # OpenRead::rewind really rewinds the file variant
    rw = F.body_by_path('pie::resource::file::OpenRead::rewind')
    if rw is not None:
        cs = rw.find_calls(lambda c: c.qname == 'std::io::Seek::rewind')
        good = False
        for c in cs:
            req = rw.edges_required_for(c.bb)
            good = any(gd.kind == 'enum' and gd.variants() == frozenset(['File']) for gd in req)
            fe = [('e', bb, k) for (bb, k), gd in rw.guards.items() if gd.kind == 'enum' and gd.variants() == frozenset(['File'])]
            for e in fe:
                seen = rw.reach([e], avoid=ctx.both(ctx.infeasible(rw), lambda n: n == c.bb))
                if any(r in seen for r in rw.returns()):
                    good = False
        R.ob('F1-openread-rewind', rw.path, good, 'OpenRead::rewind seeks the file variant back to the start' if good else 'OpenRead::rewind does not rewind an open file', ctx.where(rw), props=P)
    else:
        R.missing('F1', 'OpenRead::rewind', 'not found', props=P)
    # F6: the content hash covers the whole file
    OR = 'pie::resource::file::OpenRead'
    file_hashers = set()  # functions that hash the content of a reader (whatever their name)
    FR = getattr(F, 'raw_facts', None)  # normalised view: helpers inlined into all their callers are examined as the functions they are
    all_bodies = list(F.bodies.values()) + ([b_ for i_, b_ in FR.bodies.items() if i_ not in F.bodies] if FR is not None else [])
    for b in all_bodies:
        if b.crate != 'pie' or b.is_test_code() or b.kind not in ('AssocFn', 'Fn'):
            continue
        # (a hasher inlined into its caller in the normalised view is examined as the function it still is, not again inside the caller)
        news = b.find_calls(lambda c: c.qname == 'sha2::Digest::new' and not b.blocks[c.bb].get('from_body'))
        readers = [i for i in range(1, b.argc + 1) if 'BufReader' in b.local_ty(i) or 'std::fs::File' in b.local_ty(i) or 'Read' in b.local_ty(i).replace('OpenRead', '')
                   or b.local_ty(i).lstrip('&').replace('mut ', '', 1).strip() in b.generics]  # `fn hash_file<R: Read>(r: &mut R)`
        if not news or not readers:
            continue
        file_hashers.add(b.id)
        cps = b.find_calls(lambda c: c.qname == 'std::io::copy')
        good = len(cps) == 1 and all(o.kind == 'arg' and o.key in readers for o in b.orig_operand(cps[0].args[0])) and ctx.base_call_bbs(b.orig_operand(cps[0].args[1])) == {news[0].bb}
        if good:
            fin = b.find_calls(lambda c: c.qname == 'sha2::Digest::finalize')
            good = len(fin) == 1 and ctx.base_call_bbs(b.orig_operand(fin[0].args[0])) == {news[0].bb} and b.must_before(fin[0].bb, ctx.both(ctx.infeasible(b), lambda n: n == cps[0].bb)) is None
        if not good and not cps:
            # a manual read loop is accepted when the only way from a read to the finalisation is the `0 bytes read` edge and every non-empty read is fed to the digest
            rds = b.find_calls(lambda c: c.qname in ('std::io::Read::read', 'std::io::BufRead::fill_buf') and all(o.kind == 'arg' and o.key in readers for o in b.orig_operand(c.args[0])))
            fin = b.find_calls(lambda c: c.qname == 'sha2::Digest::finalize')
            ups = {c.bb for c in b.find_calls(lambda c: c.qname in ('sha2::Digest::update', 'sha2::digest::Update::update'))}
            if len(rds) == 1 and len(fin) == 1:
                r0 = rds[0]
                zero_edges = set()
                for (bb, k), gd in b.guards.items():
                    if r0.bb not in ctx.base_call_bbs(gd.origins) and not any(o.kind == 'op' for o in gd.origins):
                        continue
                    if gd.kind == 'int' and gd.value == 0 and r0.bb in ctx.base_call_bbs(gd.origins):
                        zero_edges.add(('e', bb, k))
                    if gd.kind == 'bool':
                        for o in gd.origins:
                            if o.kind == 'op':
                                rv = b.blocks[o.key[0]]['stmts'][o.key[1]]['rv']
                                if rv['k'] == 'bin' and rv['bop'] == 'Eq' and rv['b'].get('k', {}).get('int') == '0' and r0.bb in ctx.base_call_bbs(b.orig_operand(F.operand(rv['a']))) and gd.truth() is True:
                                    zero_edges.add(('e', bb, k))
                                if rv['k'] == 'bin' and rv['bop'] == 'Ne' and rv['b'].get('k', {}).get('int') == '0' and r0.bb in ctx.base_call_bbs(b.orig_operand(F.operand(rv['a']))) and gd.truth() is False:
                                    zero_edges.add(('e', bb, k))
                inf_ = ctx.infeasible(b)
                s1 = b.reach(b.xsucc(r0.bb), avoid=ctx.both(inf_, lambda n: n in zero_edges))
                to_fin = fin[0].bb in s1
                s2 = b.reach(b.xsucc(r0.bb), avoid=ctx.both(inf_, lambda n: n in zero_edges or n in ups), stop=lambda n: n == r0.bb)
                loops_without_update = r0.bb in s2
                good = bool(zero_edges) and not to_fin and not loops_without_update and ctx.base_call_bbs(b.orig_operand(fin[0].args[0])) == {news[0].bb}
        R.ob('F6-whole-file', b.path, good, 'the digest is fed the whole reader (io::copy to EOF) and finalised afterwards' if good
             else 'the content hash is not provably taken over the whole file (expected io::copy(reader, hasher) followed by finalize of that hasher)', ctx.where(b), props=P)
    # F7: OpenRead helpers and construction per variant
    want = {'exists': {'File', 'Directory'}, 'is_file': {'File'}, 'is_directory': {'Directory'}, 'as_metadata': {'File', 'Directory'}, 'as_file': {'File'}, 'as_directory': {'Directory'}}
    table = F.enum_table(OR) or {}
    n7 = 0
    helper_pos = {}  # body id of an OpenRead helper -> variants for which it answers positively (as evaluated, F7)
    for name, w in want.items():
        b = F.body_by_path(OR + '::' + name)
        if b is None:
            continue
        n7 += 1
        got = set()
        und = False
        for v in table.values():
            r = closure_result_under_variant(b, OR, v)
            if name in ('exists',):
                # `!matches!(..)`: result is the negation of a flag; evaluate through the Not
                r = _bool_result_under_variant(ctx, b, OR, v)
            if r in ('yes', 'maybe'):
                got.add(v)
            elif r == 'unknown':
                und = True
        if und:
            R.undecided('F7-openread', OR + '::' + name, 'cannot evaluate per variant', ctx.where(b), props=P)
        else:
            helper_pos[b.id] = frozenset(got)
            R.ob('F7-openread', OR + '::' + name, got == w, 'OpenRead::%s answers positively exactly for %s' % (name, sorted(w)) if got == w else 'OpenRead::%s answers positively for %s, expected %s' % (name, sorted(got), sorted(w)), ctx.where(b), props=P)
    R.floor('F7', 'OpenRead helpers', n7, 4, props=P)
    # the constructor of the reader: the inherent function of OpenRead (whatever its name) that builds its variants from a path
    ctors = [b_ for b_ in F.bodies.values() if b_.impl_self == OR and not b_.impl_trait and b_.kind == 'AssocFn' and OR.split('::')[-1] in b_.local_ty(0)
             and any(d_[0] == 'stmt' and d_[3]['k'] == 'aggr' and d_[3]['ak'].get('adt', '').endswith('OpenRead') for ds_ in b_.defs.values() for d_ in ds_)]
    nb = ctors[0] if len(ctors) == 1 else F.body_by_path(OR + '::new')
    if nb is not None:
        inf = ctx.infeasible(nb)
        built = {}
        for l, ds in nb.defs.items():
            for d in ds:
                if d[0] == 'stmt' and d[3]['k'] == 'aggr' and d[3]['ak'].get('adt', '').endswith('OpenRead'):
                    built[d[3]['ak']['variant']] = d[1]
        good = set(built) == {'File', 'Directory', 'NonExistent'}
        why = 'variants built: %s' % sorted(built)
        if good:
            req = {v: nb.edges_required_for(bb) for v, bb in built.items()}
            md_none = any(gd.kind == 'enum' and gd.variants() == frozenset(['None']) and any(fs_helper_kind(ctx, c) == 'metadata' for c in gd.subject_calls()) for gd in req['NonExistent'])
            is_file_t = any(gd.kind == 'bool' and gd.truth() is True and any(c.qname == 'std::fs::Metadata::is_file' for c in gd.subject_calls()) for gd in req['File'])
            is_file_f = any(gd.kind == 'bool' and ((gd.truth() is False and any(c.qname == 'std::fs::Metadata::is_file' for c in gd.subject_calls())) or
                                                   (gd.truth() is True and any(c.qname == 'std::fs::Metadata::is_dir' for c in gd.subject_calls()))) for gd in req['Directory'])
            md_some_f = any(gd.kind == 'enum' and gd.variants() == frozenset(['Some']) for gd in req['File'])
            good = md_none and is_file_t and is_file_f and md_some_f
            why = 'NonExistent under metadata=None: %s; File under is_file: %s; Directory otherwise: %s' % (md_none, is_file_t, is_file_f)
            opens = nb.find_calls(lambda c: c.qname == 'std::fs::File::open')
            good = good and len(opens) == 1 and all(o.kind == 'arg' and o.key == 1 for o in nb.orig_operand(opens[0].args[0]))
        R.ob('F7-openread-new', nb.path, good, 'a path is opened as NonExistent iff it has no metadata, as File iff it is a regular file (that very path is opened), as Directory otherwise' if good else why,
             ctx.where(nb), props=P)
    # F8: the content observer dispatches on the kind of path
    # by role, not by name: the listing hasher is the function that reads a directory and returns a digest, the dispatcher the function that
    # takes the opened reader and calls both hashers
    dir_hashers = {b_.id for b_ in all_bodies if b_.crate == 'pie' and not b_.is_test_code() and b_.kind in ('AssocFn', 'Fn') and '[u8; 32]' in b_.local_ty(0)
                   and b_.find_calls(lambda c: c.qname == 'std::fs::read_dir')}

    def hrole(c):
        cb_ = c.body.facts.callee_body(c)
        if cb_ is None:
            return None
        return 'hash_file' if cb_.id in file_hashers else 'hash_directory' if cb_.id in dir_hashers else None
    hbs = [b_ for b_ in all_bodies if b_.crate == 'pie' and not b_.is_test_code() and b_.kind in ('AssocFn', 'Fn')
           and any('OpenRead' in b_.local_ty(i) for i in range(1, b_.argc + 1))
           and {hrole(c) for c in b_.calls.values()} >= {'hash_file', 'hash_directory'}]
    hb = hbs[0] if len(hbs) == 1 else F.body_by_path('pie::resource::file::hash_checker::HashChecker::hash')
    if hb is not None:
        res = {}
        for v in table.values():
            def av(n, v=v):
                if isinstance(n, tuple):
                    gd = hb.guard_of(n[1], n[2])
                    if gd is not None and gd.kind == 'enum' and gd.extra == OR:
                        vs = gd.variants()
                        return vs is not None and v not in vs
                    # the same test through an OpenRead helper on the reader: `r.as_file()` is Some / `r.is_directory()` is true exactly for
                    # the variants established by F7
                    if gd is not None:
                        for sc in gd.subject_calls():
                            cb_ = F.callee_body(sc)
                            if cb_ is not None and cb_.id in helper_pos:
                                pos = None
                                if gd.kind == 'bool' and gd.truth() is not None:
                                    pos = gd.truth()
                                elif gd.kind == 'enum' and gd.variants() in (frozenset(['Some']), frozenset(['None'])):
                                    pos = gd.variants() == frozenset(['Some'])
                                if pos is not None:
                                    return (v in helper_pos[cb_.id]) != pos
                return False
            seen = hb.reach([0], avoid=ctx.both(ctx.infeasible(hb), av))
            res[v] = sorted({hrole(hb.calls[x]) or hb.calls[x].name for x in seen if not isinstance(x, tuple) and x in hb.calls and (hrole(hb.calls[x]) or hb.calls[x].name.startswith('hash_'))})
        good = res == {'File': ['hash_file'], 'Directory': ['hash_directory'], 'NonExistent': []}
        R.ob('F8-dispatch', hb.path, good, 'files are hashed by content, directories by listing, an absent path has no hash' if good else 'hash dispatch per kind of path: %s' % res, ctx.where(hb), props=P)
        for c in hb.find_calls(lambda c: hrole(c) == 'hash_directory' or c.name == 'hash_directory'):
            cb_ = c.body.facts.callee_body(c)
            pi = [i for i in range(1, (cb_.argc if cb_ is not None else 0) + 1) if 'Path' in cb_.local_ty(i)]
            pa = c.args[pi[0] - 1] if len(pi) == 1 and pi[0] - 1 < len(c.args) else c.args[-1]
            po = hb.orig_operand(pa)
            good = bool(po) and all(o.kind == 'arg' and 'Path' in hb.local_ty(o.key) for o in po)
            R.ob('F8-dir-path', hb.path, good, 'the listing hashed is that of the checked path' if good else 'another directory is listed', ctx.where(hb, c.bb), props=P)
    # F5 digest framing
    n = 0
    for b in F.bodies.values():
        if b.crate != 'pie' or b.is_test_code():
            continue
        ups = b.find_calls(lambda c: c.qname in ('sha2::Digest::update', 'sha2::digest::Update::update', 'std::hash::Hasher::write'))
        if not ups:
            continue
        inf = ctx.infeasible(b)
        for nx in b.find_calls(lambda c: c.name == 'next'):
            some_e = [e for e, gd in guard_edges_on_call(b, nx) if gd.variants() == frozenset(['Some'])]
            body_blocks = set()
            for e in some_e:
                body_blocks |= {x for x in b.reach([e], avoid=inf, stop=lambda n_: n_ == nx.bb) if not isinstance(x, tuple)}
            inloop = [u for u in ups if u.bb in body_blocks and nx.bb in b.reach([u.bb], avoid=inf)]
            var = [u for u in inloop if not (len(u.gargs) > 1 and u.gargs[1].startswith('[u8;')) and not all(o.kind == 'const' for o in b.orig_operand(u.args[1]))]
            fixed = [u for u in inloop if u not in var]
            if not var:
                continue
            n += 1
            fb = {u.bb for u in fixed}
            bad = False
            for u in var:
                seen = b.reach(b.xsucc(u.bb), avoid=ctx.both(inf, lambda n_: n_ in fb), stop=lambda n_: n_ == nx.bb)
                # reaching the loop head (next iteration) or the exit without a delimiter
                if nx.bb in seen:
                    # also accept delimiter *before* the variable part in the same iteration
                    pre_ok = all(b.must_before(u.bb, ctx.both(inf, lambda n_: n_ in fb), start=e[1]) is None for e in some_e) if fixed else False
                    if not pre_ok:
                        bad = True
            # the bytes hashed for an entry are its name, converted without loss
            LOSSLESS = {'file_name', 'as_encoded_bytes', 'deref', 'as_os_str', 'as_bytes', 'as_ref', 'borrow', 'into_encoded_bytes', 'as_slice', 'next', 'branch', 'into_iter', 'read_dir', 'as_path', 'into_os_string',
                        'to_os_string', 'as_mut_os_str',
                        # collecting / ordering the names first changes no name
                        'map', 'collect', 'iter', 'iter_mut', 'sort', 'sort_unstable', 'sort_by', 'sort_unstable_by', 'to_owned', 'clone', 'cloned', 'copied', 'to_vec', 'into_vec', 'push', 'extend', 'new',
                        'with_capacity', 'from_residual', 'from_iter', 'into_boxed_slice', 'index', 'len', 'as_mut_slice'}
            for u in var:
                anc = ancestors(b, b.orig_operand(u.args[1]), depth=14)
                names = {x.name for x in anc.values()}
                # what the closures of `map` / `filter_map` adaptors on the way do to each item
                for x in list(anc.values()):
                    if x.qname in ('std::iter::Iterator::map', 'std::iter::Iterator::filter_map', 'std::iter::Iterator::flat_map') and len(x.args) > 1:
                        for o in b.orig_operand(x.args[1]):
                            if o.kind == 'aggr':
                                cb_ = F.bodies.get(b.blocks[o.key[0]]['stmts'][o.key[1]]['rv']['ak'].get('closure'))
                                if cb_ is not None:
                                    names |= {c_.name for c_ in cb_.calls.values() if not cb_.blocks[c_.bb]['cleanup']}
                # a local helper on the way (`list_directory(path) -> Vec<OsString>`): what it (and its closures) call counts as part of the chain
                for x in list(anc.values()):
                    cb_ = F.callee_body(x)
                    if cb_ is not None and cb_.crate == 'pie' and cb_.id != b.id:
                        for y in F.with_closures(cb_):
                            names |= {c_.name for c_ in y.calls.values() if not y.blocks[c_.bb]['cleanup']}
                        names.discard(x.name)
                from_names = 'file_name' in names or 'path' in names
                lossy = sorted(n_ for n_ in names if n_ not in LOSSLESS)
                if not from_names:
                    R.undecided('F5-lossless', b.path, 'the bytes hashed per directory entry cannot be traced back to the entry names (through %s)' % sorted(names)[:12], ctx.where(b, u.bb), props=P)
                if from_names:
                    R.ob('F5-lossless', b.path, not lossy, 'entry names are hashed through lossless conversions only' if not lossy
                         else 'entry names pass through %s before hashing: distinct names can collapse to the same bytes (e.g. non-UTF-8 names under a lossy conversion)' % lossy, ctx.where(b, u.bb), props=P)
            R.ob('F5-framing', b.path, not bad, 'variable-length items fed to the digest in a loop are delimited (different item sets cannot concatenate to the same byte stream)' if not bad
                 else 'variable-length items are fed to the digest back to back: {"ab"} and {"a","b"} hash alike', ctx.where(b, var[0].bb), props=P)
    if have_hash:
        R.floor('F5', 'digest loops over variable-length items', n, 1, props=P)


def _bool_result_under_variant(ctx, b, enum_ty, variant):
    """Like roles.closure_result_under_variant, but understands `!flag` return values."""
    def infeasible(n):
        if isinstance(n, tuple):
            g = b.guard_of(n[1], n[2])
            if g is not None and g.kind == 'enum' and g.extra == enum_ty:
                vs = g.variants()
                return vs is not None and variant not in vs
        return False
    avoid, seen = b.refine(ctx.both(ctx.infeasible(b), infeasible))
    live = frozenset(x for x in seen if not isinstance(x, tuple))
    vals = set()
    for d in b.defs.get(0, []):
        if d[1] not in live or d[0] != 'stmt':
            return 'unknown'
        rv = d[3]
        neg = False
        if rv['k'] == 'un' and rv['uop'] == 'Not':
            neg = True
            op = b.facts.operand(rv['a'])
        elif rv['k'] == 'use':
            op = b.facts.operand(rv['op'])
        else:
            return 'unknown'
        os_ = b.orig_operand(op, None, live)
        for o in os_:
            if o.kind != 'const':
                return 'unknown'
            v = o.key == '1'
            vals.add((not v) if neg else v)
    if vals == {True}:
        return 'yes'
    if vals == {False}:
        return 'no'
    return 'maybe' if vals else 'unknown'
