"""Finite-domain abstract evaluation of small MIR bodies (used for C12).

Values: ('atom', name) opaque payloads whose equality is fixed by the case under evaluation;
('res', 'Ok'|'Err', v); ('opt', None | v); ('bool', b); ('unit',); ('tuple', (..)); references are
transparent. Every branch must be decided by these values, otherwise the evaluation is Undecided
(fail closed). Terminates: straight-line execution with a step bound."""


class Undecided(Exception):
    pass


def v_eq(a, b):
    if a[0] != b[0]:
        raise Undecided('comparing %s with %s' % (a[0], b[0]))
    k = a[0]
    if k == 'atom':
        return a[1] == b[1]
    if k == 'bool':
        return a[1] == b[1]
    if k == 'unit':
        return True
    if k == 'opt':
        if a[1] is None or b[1] is None:
            return a[1] is None and b[1] is None
        return v_eq(a[1], b[1])
    if k == 'res':
        return a[1] == b[1] and v_eq(a[2], b[2])
    if k == 'tuple':
        return len(a[1]) == len(b[1]) and all(v_eq(x, y) for x, y in zip(a[1], b[1]))
    raise Undecided('equality on ' + k)


def call_summary(qname, args, gargs=()):
    """Semantics of the std functions the built-in checkers use. Returns a value or None (no summary)."""
    q = qname
    a = args
    if q in ('std::result::Result::as_ref', 'std::option::Option::as_ref', 'std::clone::Clone::clone', 'std::option::Option::cloned',
             'std::option::Option::copied', 'std::borrow::ToOwned::to_owned', 'std::result::Result::cloned', 'std::result::Result::as_deref',
             'std::option::Option::as_deref', 'std::convert::AsRef::as_ref', 'std::convert::Into::into', 'std::convert::From::from', 'std::borrow::Borrow::borrow', 'std::ops::Deref::deref'):
        return a[0]
    if q == 'std::result::Result::ok':
        return ('opt', a[0][2] if a[0][1] == 'Ok' else None)
    if q == 'std::result::Result::err':
        return ('opt', a[0][2] if a[0][1] == 'Err' else None)
    if q == 'std::result::Result::is_ok':
        return ('bool', a[0][1] == 'Ok')
    if q == 'std::result::Result::is_err':
        return ('bool', a[0][1] == 'Err')
    if q == 'std::option::Option::is_some':
        return ('bool', a[0][1] is not None)
    if q == 'std::option::Option::is_none':
        return ('bool', a[0][1] is None)
    if q == 'std::cmp::PartialEq::eq':
        return ('bool', v_eq(a[0], a[1]))
    if q == 'std::cmp::PartialEq::ne':
        return ('bool', not v_eq(a[0], a[1]))
    if q == 'dyn std::any::Any::downcast_ref' or q == 'dyn std::any::Any::downcast_mut':
        # ('any', type tag, value): the downcast succeeds iff the tag is the requested type. Tags are printed types;
        # the tag 'Self' stands for the type the call names first when no generic argument is known.
        if a[0][0] != 'any':
            raise Undecided('downcast of a non-Any value')
        want = gargs[0] if gargs else 'Self'
        return ('opt', a[0][2] if a[0][1] == want else None)
    if q == 'dyn std::any::Any::is':
        if a[0][0] != 'any':
            raise Undecided('is() on a non-Any value')
        want = gargs[0] if gargs else 'Self'
        return ('bool', a[0][1] == want)
    if q == 'std::option::Option::zip':
        return ('opt', None if a[0][1] is None or a[1][1] is None else ('tuple', (a[0][1], a[1][1])))
    if q == 'std::option::Option::and':
        return ('opt', None) if a[0][1] is None else a[1]
    if q == 'std::option::Option::or':
        return a[0] if a[0][1] is not None else a[1]
    if q == 'std::option::Option::xor':
        if (a[0][1] is None) == (a[1][1] is None):
            return ('opt', None)
        return a[0] if a[0][1] is not None else a[1]
    if q == 'std::option::Option::flatten':
        return ('opt', None) if a[0][1] is None else a[0][1]
    if q == 'std::option::Option::ok_or':
        return ('res', 'Err', a[1]) if a[0][1] is None else ('res', 'Ok', a[0][1])
    if q == 'std::option::Option::unzip':
        return ('tuple', (('opt', None), ('opt', None))) if a[0][1] is None else ('tuple', (('opt', a[0][1][1][0]), ('opt', a[0][1][1][1])))
    if q == 'std::result::Result::and':
        return a[0] if a[0][1] == 'Err' else a[1]
    if q == 'std::result::Result::or':
        return a[0] if a[0][1] == 'Ok' else a[1]
    if q == 'std::result::Result::unwrap_or':
        return a[0][2] if a[0][1] == 'Ok' else a[1]
    if q == 'std::result::Result::flatten':
        return a[0] if a[0][1] == 'Err' else a[0][2]
    if q == 'std::mem::discriminant':
        return ('atom', 'discr:' + (a[0][1] if a[0][0] == 'res' else str(a[0][1] is None)))
    return None


def call_closure(F, clo, args, depth):
    """apply a closure value ('closure', body id, captured values) to argument values"""
    if clo[0] != 'closure' or clo[1] not in F.bodies or depth > 4:
        raise Undecided('call of a non-closure value')
    return evaluate(F, F.bodies[clo[1]], [('tuple', clo[2])] + list(args), depth + 1)


def closure_summary(F, q, a, depth):
    """Option / Result combinators that take a closure."""
    def truth(v):
        if v[0] != 'bool':
            raise Undecided('closure did not return a bool')
        return v[1]
    if q == 'std::option::Option::is_some_and':
        return ('bool', a[0][1] is not None and truth(call_closure(F, a[1], [a[0][1]], depth)))
    if q == 'std::option::Option::is_none_or':
        return ('bool', a[0][1] is None or truth(call_closure(F, a[1], [a[0][1]], depth)))
    if q == 'std::option::Option::map':
        return ('opt', None if a[0][1] is None else call_closure(F, a[1], [a[0][1]], depth))
    if q == 'std::option::Option::filter':
        return ('opt', a[0][1] if a[0][1] is not None and truth(call_closure(F, a[1], [a[0][1]], depth)) else None)
    if q == 'std::option::Option::and_then':
        return ('opt', None) if a[0][1] is None else call_closure(F, a[1], [a[0][1]], depth)
    if q == 'std::option::Option::map_or':
        return a[1] if a[0][1] is None else call_closure(F, a[2], [a[0][1]], depth)
    if q == 'std::option::Option::unwrap_or':
        return a[1] if a[0][1] is None else a[0][1]
    if q == 'std::option::Option::or_else':
        return a[0] if a[0][1] is not None else call_closure(F, a[1], [], depth)
    if q == 'std::option::Option::unwrap_or_else':
        return a[0][1] if a[0][1] is not None else call_closure(F, a[1], [], depth)
    if q == 'std::option::Option::map_or_else':
        return call_closure(F, a[1], [], depth) if a[0][1] is None else call_closure(F, a[2], [a[0][1]], depth)
    if q == 'std::option::Option::ok_or_else':
        return ('res', 'Err', call_closure(F, a[1], [], depth)) if a[0][1] is None else ('res', 'Ok', a[0][1])
    if q == 'std::option::Option::zip_with':
        return ('opt', None if a[0][1] is None or a[1][1] is None else call_closure(F, a[2], [a[0][1], a[1][1]], depth))
    if q == 'std::result::Result::and_then':
        return a[0] if a[0][1] == 'Err' else call_closure(F, a[1], [a[0][2]], depth)
    if q == 'std::result::Result::or_else':
        return a[0] if a[0][1] == 'Ok' else call_closure(F, a[1], [a[0][2]], depth)
    if q == 'std::result::Result::unwrap_or_else':
        return a[0][2] if a[0][1] == 'Ok' else call_closure(F, a[1], [a[0][2]], depth)
    if q == 'std::result::Result::map_or':
        return a[1] if a[0][1] == 'Err' else call_closure(F, a[2], [a[0][2]], depth)
    if q == 'std::result::Result::map_or_else':
        return call_closure(F, a[1], [a[0][2]], depth) if a[0][1] == 'Err' else call_closure(F, a[2], [a[0][2]], depth)
    if q == 'std::result::Result::is_ok_and':
        return ('bool', a[0][1] == 'Ok' and truth(call_closure(F, a[1], [a[0][2]], depth)))
    if q == 'std::result::Result::is_err_and':
        return ('bool', a[0][1] == 'Err' and truth(call_closure(F, a[1], [a[0][2]], depth)))
    if q == 'std::result::Result::map':
        return a[0] if a[0][1] == 'Err' else ('res', 'Ok', call_closure(F, a[1], [a[0][2]], depth))
    if q == 'std::result::Result::map_err':
        return a[0] if a[0][1] == 'Ok' else ('res', 'Err', call_closure(F, a[1], [a[0][2]], depth))
    if q in ('core::bool::then', 'core::bool::then_some'):
        if a[0][0] != 'bool':
            raise Undecided('then on non-bool')
        if q.endswith('then_some'):
            return ('opt', a[1] if a[0][1] else None)
        return ('opt', call_closure(F, a[1], [], depth) if a[0][1] else None)
    return None


def evaluate(F, body, args, depth=0, steps=400, extern=None):
    """args: list of values for _1.._n. Returns the value of _0."""
    env = {}
    for i, v in enumerate(args):
        env[i + 1] = v
    bb = 0

    def place_val(pl):
        l, proj = pl
        if l not in env:
            raise Undecided('read of unset local _%d in %s' % (l, body.path))
        v = env[l]
        for p in proj:
            if p == '*':
                continue
            if isinstance(p, tuple) and p[0] == 'd':
                if v[0] == 'opt':
                    if (p[1] == 'Some') != (v[1] is not None):
                        raise Undecided('downcast to a variant the value does not have')
                elif v[0] == 'res':
                    if p[1] != v[1]:
                        raise Undecided('downcast to a variant the value does not have')
                elif v[0] == 'adt':
                    if p[1] != v[2]:
                        raise Undecided('downcast to a variant the value does not have')
                else:
                    raise Undecided('downcast of ' + v[0])
                continue
            if isinstance(p, tuple) and p[0] == 'f':
                if v[0] == 'opt':
                    v = v[1]
                elif v[0] == 'res':
                    v = v[2]
                elif v[0] == 'tuple':
                    v = v[1][p[1]]
                elif v[0] == 'adt' and p[1] < len(v[3]):
                    v = v[3][p[1]]
                elif v[0] == 'atom':
                    v = ('atom', '%s.%s' % (v[1], p[1]))  # a field of an opaque value is another opaque value
                else:
                    raise Undecided('field of ' + v[0])
                continue
            raise Undecided('projection %s' % (p,))
        return v

    def op_val(o):
        if o[0] in ('c', 'm'):
            return place_val(o[1])
        if o[0] == 'k':
            c = o[1]
            if c.get('ty') == 'bool':
                return ('bool', c.get('int') == '1')
            if c.get('ty') == '()':
                return ('unit',)
            if 'fn' in c:
                return ('fn', c['fn'].get('id'))
            return ('const', c.get('int', c.get('v')))
        raise Undecided('operand')
    while steps > 0:
        steps -= 1
        blk = body.blocks[bb]
        for s in blk['stmts']:
            if s['k'] != 'a':
                continue
            pl = F.place(s['p'])
            rv = s['rv']
            k = rv['k']
            if k == 'use' or k == 'cast':
                val = op_val(F.operand(rv['op']))
            elif k in ('ref', 'rawptr'):
                val = place_val(F.place(rv['pl']))
            elif k == 'aggr':
                ak = rv['ak']
                ops = [op_val(F.operand(o)) for o in rv['ops']]
                adt = ak.get('adt', '')
                if adt.endswith('option::Option'):
                    val = ('opt', ops[0] if ak['variant'] == 'Some' else None)
                elif adt.endswith('result::Result'):
                    val = ('res', ak['variant'], ops[0])
                elif ak.get('tuple'):
                    val = ('tuple', tuple(ops)) if ops else ('unit',)
                elif 'closure' in ak:
                    val = ('closure', ak['closure'], tuple(ops))
                else:
                    val = ('adt', adt, ak.get('variant'), tuple(ops), ak.get('vi', 0))
            elif k == 'discr':
                v = place_val(F.place(rv['pl']))
                if v[0] == 'opt':
                    val = ('int', 0 if v[1] is None else 1)
                elif v[0] == 'res':
                    val = ('int', 0 if v[1] == 'Ok' else 1)
                elif v[0] == 'adt' and len(v) > 4:
                    val = ('int', v[4])
                else:
                    raise Undecided('discriminant of ' + v[0])
            elif k == 'bin':
                a = op_val(F.operand(rv['a']))
                b = op_val(F.operand(rv['b']))
                if rv['bop'] == 'Eq':
                    val = ('bool', v_eq(a, b))
                elif rv['bop'] == 'Ne':
                    val = ('bool', not v_eq(a, b))
                elif rv['bop'] in ('BitAnd', 'BitOr', 'BitXor') and a[0] == 'bool' and b[0] == 'bool':
                    val = ('bool', {'BitAnd': a[1] and b[1], 'BitOr': a[1] or b[1], 'BitXor': a[1] != b[1]}[rv['bop']])
                else:
                    raise Undecided('binary op ' + rv['bop'])
            elif k == 'un':
                a = op_val(F.operand(rv['a']))
                if rv['uop'] == 'Not' and a[0] == 'bool':
                    val = ('bool', not a[1])
                else:
                    raise Undecided('unary op ' + rv['uop'])
            else:
                raise Undecided('rvalue ' + k)
            if pl[1]:
                if all(p == '*' for p in pl[1]):
                    env[pl[0]] = val
                else:
                    raise Undecided('store through projection')
            else:
                env[pl[0]] = val
        t = blk['term']
        tk = t['k']
        if tk == 'return':
            return env.get(0, ('unit',))
        if tk == 'goto':
            bb = t['t']
        elif tk == 'drop':
            bb = t['t']
        elif tk == 'switch':
            v = op_val(F.operand(t['op']))
            if v[0] == 'bool':
                iv = 1 if v[1] else 0
            elif v[0] == 'int':
                iv = v[1]
            else:
                raise Undecided('switch on ' + v[0])
            nxt = t['otherwise']
            for val_, tg in t['arms']:
                if int(val_) == iv:
                    nxt = tg
            bb = nxt
        elif tk == 'call':
            call = body.calls[bb]
            if call.target is None:
                raise Undecided('diverging call ' + call.qname)
            argv = [op_val(a) for a in call.args]
            res = extern(call, argv) if extern is not None else None
            if res is None and call.qname == 'std::ops::Try::branch':
                a0 = argv[0]
                if a0[0] == 'res':
                    res = ('adt', 'std::ops::ControlFlow', 'Continue', (a0[2],), 0) if a0[1] == 'Ok' else ('adt', 'std::ops::ControlFlow', 'Break', (a0,), 1)
                elif a0[0] == 'opt':
                    res = ('adt', 'std::ops::ControlFlow', 'Continue', (a0[1],), 0) if a0[1] is not None else ('adt', 'std::ops::ControlFlow', 'Break', (a0,), 1)
            if res is None and call.qname == 'std::ops::FromResidual::from_residual':
                res = argv[0]
            if res is None:
                res = call_summary(call.qname, argv, call.gargs)
            if res is None:
                res = closure_summary(F, call.qname, argv, depth)
            if res is None:
                cb = F.callee_body(call)
                if cb is not None and depth < 4:
                    res = evaluate(F, cb, argv, depth + 1, extern=extern)
                else:
                    raise Undecided('no summary for ' + call.qname)
            if call.dest[1]:
                raise Undecided('call result stored through projection')
            env[call.dest[0]] = res
            bb = call.target
        elif tk == 'assert':
            bb = t['t']
        else:
            raise Undecided('terminator ' + tk)
    raise Undecided('step bound exceeded')
