"""Thorough tier: the quick analysis, plus
  * the feature matrix x all targets (tests, examples, dev crates as clients of the pitfall rules),
  * the checker self-test: every catalogue mutant tied to the property is applied to a scratch copy,
    compiled (cargo check through the driver), analysed, and must be reported by its rule; mutants
    marked equivalent must NOT be reported (false-alarm guard),
  * the clippy cross-reference for the who-may-call rules (C02 C11 C16).
Only the analysis of /repo decides the verdict; self-test results are reported in the evidence."""
import hashlib
import json
import os
import subprocess
import sys
import tempfile
import shutil
import time

HERE = os.path.dirname(os.path.abspath(__file__))
VERIF = os.path.dirname(HERE)
sys.path.insert(0, HERE)
sys.path.insert(0, os.path.join(VERIF, 'mutants'))
import extract  # noqa: E402
import engine  # noqa: E402
import check as checkmod  # noqa: E402
import selftest  # noqa: E402

MATRIX = ['all-targets', 'pie-default', 'graph-noserde']
# rule ids whose instances legitimately disappear in a configuration (feature-gated code)
CONFIG_SKIP = {
    'pie-default': ('F', 'F5', 'F5-framing', 'F2-rewind', 'OPS', 'I3'),
    'graph-noserde': None,  # only pie_graph is compiled: graph rules only
}
GRAPH_PROPS = ('C10', 'C11', 'C07', 'C02', 'C16')


def analysis_hash():
    h = hashlib.sha256()
    for root in (HERE, os.path.join(VERIF, 'mutants')):
        for f in sorted(os.listdir(root)):
            if f.endswith('.py'):
                h.update(open(os.path.join(root, f), 'rb').read())
    return h.hexdigest()[:16]


def mutant_cache_path(repo_hash, mid):
    d = os.path.join(extract.CACHE, 'mutants', repo_hash + '-' + analysis_hash())
    os.makedirs(d, exist_ok=True)
    return os.path.join(d, mid + '.json')


def seeded_mutants(prop):
    """The independently seeded changes (seeded/<id>/patch.diff) filed for this property, as self-test entries:
    each must be reported by at least one rule (any rule: the rules that reported it when it was filed are
    recorded in its meta.json and in the result matrix)."""
    import glob
    out = []
    for d in sorted(glob.glob(os.path.join(VERIF, 'seeded', '*', 'meta.json'))):
        meta = json.load(open(d))
        if meta.get('property') != prop:
            continue
        out.append(dict(id='seeded-' + meta['id'], patch=os.path.join(os.path.dirname(d), 'patch.diff'), expect=list(meta.get('detected_by_rules') or ['?']),
                        props=[prop], note=meta.get('needs_to_manifest', '')))
    return out


def run_mutants(prop, repo, seed):
    import catalogue
    ms = [m for m in catalogue.M if prop in m['props'] or (not m['props'] and not m['expect'])]
    ms += seeded_mutants(prop)
    rh = extract.repo_hash(repo)
    todo, results = [], {}
    for m in ms:
        p = mutant_cache_path(rh, m['id'])
        if os.path.exists(p):
            results[m['id']] = json.load(open(p))
        else:
            todo.append(m)
    # deterministic order, rotated by the seed
    if todo:
        k = seed % len(todo)
        todo = todo[k:] + todo[:k]
        res = selftest.run(todo, repo=repo, jobs=int(os.environ.get('VERIF_JOBS', '12')))
        for m in todo:
            r = res[m['id']]
            results[m['id']] = r
            if r['status'] in ('applied', 'skipped'):
                json.dump(r, open(mutant_cache_path(rh, m['id']), 'w'))
    table = []
    for m in ms:
        r = results[m['id']]
        v = selftest.verdict(m, r)
        table.append({'id': m['id'], 'verdict': v, 'expect': m['expect'], 'reported_by': sorted({f['rule'] for f in r['failing']}), 'equivalent': not m['expect']})
    return table


def clippy_crossref(repo):
    """Independent who-may-call implementation: clippy's type-resolved disallowed-methods."""
    conf = os.path.join(VERIF, 'clippy')
    td = tempfile.mkdtemp(prefix='pie-clippy-')
    try:
        env = dict(os.environ, CLIPPY_CONF_DIR=conf, CARGO_TARGET_DIR=td, CARGO_NET_OFFLINE='true')
        r = subprocess.run(['cargo', '+nightly', 'clippy', '--offline', '-p', 'pie_graph', '-p', 'pie', '--all-features', '--message-format=json', '--', '-Aclippy::all', '-Wclippy::disallowed_methods'],
                           cwd=repo, env=env, stdout=subprocess.PIPE, stderr=subprocess.PIPE, text=True)
        sites = []
        for line in r.stdout.splitlines():
            try:
                j = json.loads(line)
            except ValueError:
                continue
            msg = j.get('message') or {}
            code = (msg.get('code') or {}).get('code')
            if code == 'clippy::disallowed_methods':
                for sp in msg.get('spans', []):
                    if sp.get('is_primary'):
                        sites.append((sp['file_name'], sp['line_start'], msg.get('message', '')))
        return sorted(set(sites)), r.returncode
    finally:
        shutil.rmtree(td, ignore_errors=True)


def driver_sites(F):
    """What the MIR driver sees for the same method list."""
    import rules_graph
    import rules_misc
    names = set(l.split(chr(34))[1] for l in open(os.path.join(VERIF, "clippy", "clippy.toml")) if l.strip().startswith(chr(34)))
    out = []
    for b in F.bodies.values():
        if b.crate not in ('pie', 'pie_graph') or b.unit_is_test:
            continue
        for c in b.calls.values():
            if b.blocks[c.bb]['cleanup']:
                continue
            if c.qname in names:
                out.append((b.file, c.line, c.qname))
    return sorted(set(out))


def run(prop, repo, seed):
    t0 = time.time()
    fd = extract.facts_dir(repo, 'all')
    F, roles, R, vinfo = engine.run_best(fd)
    sc = checkmod.engine_selfcheck(R, prop)
    extra_viol = []
    configs = ['workspace --all-features (lib targets)']
    per_config = {}
    for cfg in MATRIX:
        if cfg == 'graph-noserde' and prop not in GRAPH_PROPS:
            continue
        try:
            cfd = extract.facts_dir(repo, cfg)
        except SystemExit as e:
            extra_viol.append(dict(rule='CONFIG', key=cfg, ok=False, msg='configuration %s does not compile: %s' % (cfg, e), where='', props=(prop,), status='CONFIG-BUILD'))
            continue
        cF, croles, cR, _cv = engine.run_best(cfd)
        skip = CONFIG_SKIP.get(cfg, ())
        bad = []
        known_keys = {k for (p_, k) in checkmod.load_known() if p_ == prop}
        for o in cR.for_prop(prop):
            if o['ok']:
                continue
            if o['key'] == 'floor:rule-present':
                continue  # the expected-rule floors are counted on the main configuration (all features); a feature-gated rule is absent here
            if checkmod.vkey(o) in known_keys:
                continue  # a recorded open finding shows in every configuration; it is reported once, by the main configuration
            if o['status'] in ('FLOOR', 'ANCHOR-MISSING') and (skip is None or o['rule'] in skip or o['rule'].split('-')[0] in skip):
                continue
            if skip is None and not (o['rule'].startswith(('G', 'E', 'ORD', 'C07G', 'C10', 'N')) and o['where'].startswith('graph/')):
                continue
            bad.append(o)
        per_config[cfg] = {'bodies': cF.stats()['bodies'], 'obligations': len(cR.for_prop(prop)), 'failing': len(bad), 'units': len(cF.units)}
        configs.append(extract.CONFIGS[cfg][0] and ' '.join(extract.CONFIGS[cfg][0]))
        for o in bad:
            o = dict(o)
            o['key'] = '[%s] %s' % (cfg, o['key'])
            extra_viol.append(o)
    table = run_mutants(prop, repo, seed)
    killed = sum(1 for t in table if t['verdict'] in ('killed', 'killed-other'))
    survived = [t for t in table if t['verdict'] == 'SURVIVED']
    false_alarm = [t for t in table if t['verdict'] == 'FALSE-ALARM']
    silent_ok = sum(1 for t in table if t['verdict'] == 'ok-silent')
    extra = {'engine_selfcheck': sc, 'views': checkmod.view_cov(vinfo, prop), 'configurations': configs, 'per_configuration': per_config,
             'self_test': {'mutants': len(table), 'killed': killed, 'survived': [t['id'] for t in survived], 'equivalent_silent': silent_ok,
                           'false_alarms_on_equivalent': [t['id'] for t in false_alarm], 'skipped': [t['id'] for t in table if t['verdict'] in ('skipped', 'build-failed')],
                           'matrix': table}}
    if prop in ('C02', 'C11', 'C16'):
        try:
            cs, rc = clippy_crossref(repo)
            ds = driver_sites(F)
            cl = sorted({(f, l) for f, l, _ in cs})
            dr = sorted({(f, l) for f, l, _ in ds})
            extra['clippy_crossref'] = {'clippy_sites': len(cl), 'driver_sites': len(dr), 'agree': cl == dr, 'only_clippy': [x for x in cl if x not in dr][:10], 'only_driver': [x for x in dr if x not in cl][:10]}
            if cl != dr:
                print('note: clippy cross-reference disagrees with the driver on who-may-call sites: %s' % extra['clippy_crossref'])
        except Exception as e:  # the cross-reference is informational
            extra['clippy_crossref'] = {'error': repr(e)}
    if prop in ('C02', 'C11', 'C16'):
        try:
            import hashlink_derive
            import rules_graph
            derived, nb, direct = hashlink_derive.derive(repo)
            frozen = sorted(x for x in rules_graph.REORDERING if x.startswith(('hashlink::LinkedHashSet::', 'hashlink::LinkedHashMap::')))
            not_in_table = [d for d in derived if d not in frozen]
            used = sorted({c.qname for b in F.bodies.values() if b.crate == 'pie_graph' and not b.unit_is_test for c in b.calls.values()})
            gap = [d for d in not_in_table if d in used]
            missing_from_derivation = [f for f in frozen if f not in derived and f != 'hashlink::LinkedHashMap::get_refresh']
            extra['hashlink_rederivation'] = {'hashlink_bodies': nb, 'direct_relinkers': direct, 'derived_may_relink': derived, 'frozen_table': frozen,
                                              'derived_not_in_table': not_in_table, 'of_those_called_by_pie_graph': gap, 'table_entries_not_derived': missing_from_derivation}
            for d in gap:
                extra_viol.append(dict(rule='ORD-2-table', key=d, ok=False, msg='pie_graph calls %s, which hashlink\'s own call graph shows may re-link an existing element, but the frozen table of ORD-2 does not list it' % d,
                                       where='graph/src/lib.rs', props=(prop,), status='VIOLATION'))
        except SystemExit as e:
            extra['hashlink_rederivation'] = {'error': str(e)}
    if survived:
        print('self-test: %d mutant(s) tied to %s are not reported by any rule: %s' % (len(survived), prop, [t['id'] for t in survived]))
    if false_alarm:
        print('self-test: rules fire on behaviour-preserving variants: %s' % [t['id'] for t in false_alarm])
    print('%s thorough: %d configuration(s); self-test %d/%d mutants reported, %d equivalent variants silent' % (prop, len(configs), killed, len(table) - silent_ok - len(false_alarm), silent_ok))
    return checkmod.evaluate(prop, F, roles, R, 'thorough', seed, t0, extra_cov=extra, extra_violations=extra_viol)
