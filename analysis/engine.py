"""Runs all rule groups over one fact directory."""
import importlib
import os
import sys
import traceback

HERE = os.path.dirname(os.path.abspath(__file__))
sys.path.insert(0, HERE)
from core import Facts  # noqa: E402
from report import Report, AnchorMissing  # noqa: E402
from roles import Roles  # noqa: E402
import rules_protocol  # noqa: E402

# (module, function, properties served) — order is the order of the report
GROUPS = [
    ('rules_protocol', 'rule_exec'),
    ('rules_protocol', 'rule_req'),
    ('rules_protocol', 'rule_val'),
    ('rules_protocol', 'rule_ops'),
    ('rules_build', 'rule_store'),
    ('rules_build', 'rule_topdown'),
    ('rules_build', 'rule_verdict'),
    ('rules_build', 'rule_bottomup'),
    ('rules_build', 'rule_queue'),
    ('rules_build', 'rule_error_discipline'),
    ('rules_graph', 'rule_graph_sync'),
    ('rules_graph', 'rule_ord'),
    ('rules_graph', 'rule_graph_getters'),
    ('rules_graph', 'rule_graph_search'),
    ('rules_graph', 'rule_graph_rank'),
    ('rules_graph', 'rule_graph_cycle'),
    ('rules_misc', 'rule_tracker'),
    ('rules_misc', 'rule_identity'),
    ('rules_misc', 'rule_map'),
    ('rules_misc', 'rule_determinism'),
    ('rules_checkers', 'rule_output_checkers'),
    ('rules_checkers', 'rule_file_checkers'),
    ('rules_crash', 'rule_crash'),
    ('rules_crash', 'rule_stale_residue'),
]


def load_groups():
    out = []
    for mod, fn in GROUPS:
        m = importlib.import_module(mod)
        out.append((mod + '.' + fn, getattr(m, fn)))
    return out


def run_all(facts_dir, only=None):
    F = Facts(facts_dir)
    R = Report()
    try:
        roles = Roles(F)
    except Exception as e:  # fail closed
        R.ob('ROLES', 'resolve', False, 'CHECKER-ERROR while resolving roles: %r\n%s' % (e, traceback.format_exc()), props=ALL_PROPS, status='CHECKER-ERROR')
        return F, None, R
    ctx = rules_protocol.Ctx(F, roles, R)
    for name, fn in load_groups():
        if only and name not in only and name.split('.')[-1] not in only:
            continue
        try:
            fn(ctx)
        except AnchorMissing as e:
            R.missing(name, str(e), 'role could not be resolved', props=ALL_PROPS)
        except Exception as e:
            R.ob(name, 'crash', False, 'CHECKER-ERROR in %s: %r\n%s' % (name, e, traceback.format_exc()), props=ALL_PROPS, status='CHECKER-ERROR')
    return F, roles, R


ALL_PROPS = tuple('C%02d' % i for i in range(1, 21))
