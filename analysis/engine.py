"""Runs all rule groups over one fact directory."""
import importlib
import os
import sys
import traceback

HERE = os.path.dirname(os.path.abspath(__file__))
sys.path.insert(0, HERE)
from core import Facts  # noqa: E402
from report import Report, AnchorMissing  # noqa: E402
from roles import Roles  # noqa: E402
import rules_protocol  # noqa: E402

# (module, function, properties served) — order is the order of the report
GROUPS = [
    ('rules_protocol', 'rule_exec'),
    ('rules_protocol', 'rule_req'),
    ('rules_protocol', 'rule_val'),
    ('rules_protocol', 'rule_ops'),
    ('rules_build', 'rule_store'),
    ('rules_build', 'rule_topdown'),
    ('rules_build', 'rule_verdict'),
    ('rules_build', 'rule_bottomup'),
    ('rules_build', 'rule_queue'),
    ('rules_build', 'rule_error_discipline'),
    ('rules_graph', 'rule_graph_sync'),
    ('rules_graph', 'rule_ord'),
    ('rules_graph', 'rule_graph_getters'),
    ('rules_graph', 'rule_graph_search'),
    ('rules_graph', 'rule_graph_rank'),
    ('rules_graph', 'rule_graph_cycle'),
    ('rules_misc', 'rule_tracker'),
    ('rules_misc', 'rule_identity'),
    ('rules_misc', 'rule_map'),
    ('rules_misc', 'rule_determinism'),
    ('rules_checkers', 'rule_output_checkers'),
    ('rules_checkers', 'rule_file_checkers'),
    ('rules_crash', 'rule_crash'),
    ('rules_crash', 'rule_stale_residue'),
    ('rules_c20', 'rule_c20'),  # last: also adds the C20 tag to the rules listed in rules_c20.ALSO_C20
]


def load_groups():
    out = []
    for mod, fn in GROUPS:
        m = importlib.import_module(mod)
        out.append((mod + '.' + fn, getattr(m, fn)))
    return out


def run_all(facts_dir, only=None):
    return _run_on(Facts(facts_dir), only)


ALL_PROPS = tuple('C%02d' % i for i in range(1, 21))


def _run_on(F, only=None):
    R = Report()
    try:
        roles = Roles(F)
    except Exception as e:  # fail closed
        R.ob('ROLES', 'resolve', False, 'CHECKER-ERROR while resolving roles: %r\n%s' % (e, traceback.format_exc()), props=ALL_PROPS, status='CHECKER-ERROR')
        return F, None, R
    ctx = rules_protocol.Ctx(F, roles, R)
    for name, fn in load_groups():
        if only and name not in only and name.split('.')[-1] not in only:
            continue
        try:
            fn(ctx)
        except AnchorMissing as e:
            R.missing(name, str(e), 'role could not be resolved', props=ALL_PROPS)
        except Exception as e:
            R.ob(name, 'crash', False, 'CHECKER-ERROR in %s: %r\n%s' % (name, e, traceback.format_exc()), props=ALL_PROPS, status='CHECKER-ERROR')
    return F, roles, R


class MergedReport(Report):
    """Per property, the obligations of the view chosen for that property (see run_best)."""

    def __init__(self, per_prop, chosen):
        self.per_prop = per_prop
        self.chosen = chosen
        self._seen = set()

    @property
    def obs(self):
        out = []
        for p in sorted(self.per_prop):
            out.extend(self.per_prop[p])
        return out

    @obs.setter
    def obs(self, v):  # selftest filters recorded findings out of the list
        keep = {id(o) for o in v}
        for p in self.per_prop:
            self.per_prop[p] = [o for o in self.per_prop[p] if id(o) in keep]

    def ob(self, rule, key, ok, msg, where='', props=(), witness=None, status=None):
        for p in props:
            lst = self.per_prop.setdefault(p, [])
            hit = [o for o in lst if (o['rule'], o['key']) == (rule, key)]
            if hit:
                if not ok and hit[0]['ok']:
                    hit[0].update(ok=False, msg=msg, where=where, witness=witness, status=status or 'VIOLATION')
                continue
            lst.append(dict(rule=rule, key=key, ok=bool(ok), msg=msg, where=where, props=(p,), witness=witness, status=status or ('ok' if ok else 'VIOLATION')))
        return ok

    def for_prop(self, prop):
        return list(self.per_prop.get(prop, []))


def _known_keys():
    import check as checkmod
    return set(checkmod.load_known())


# measured on the 80 probes / 118 seeded changes: strict reporting costs 3 more false alarms and gains no detection (DESIGN.md 2.2a)
STRICT_VIEWS = os.environ.get('VERIF_STRICT_VIEWS', '0') == '1'


def run_best(facts_dir):
    """Analyse the raw program and, if some obligation fails there and the tree contains helper functions that the pinned
    tree does not have, the normalised view in which those helpers are inlined into their callers (flatten.py). Both views
    are the same program; per property the view with the fewest failing obligations is reported (the raw view on a tie), so
    a property passes iff its complete rule set - floors included - holds in at least one view.
    Returns (F_raw, roles_raw, MergedReport, info)."""
    import flatten
    F0, roles0, R0 = run_all(facts_dir)
    info = {'views': ['raw'], 'inlined_helpers': {}, 'chosen': {}}
    views = [('raw', R0)]
    try:
        known = _known_keys()
    except Exception:
        known = set()

    from props import PROPS

    def missing_rules(R, p):
        # fail closed: a rule id that was confirmed for the property on the pinned tree and produced no instance in this view
        have = {o['rule'] for o in R.for_prop(p)}
        return [r for r in PROPS.get(p, {}).get('expect_rules', []) if r not in have]

    def nfail(R, p):
        return sum(1 for o in R.for_prop(p) if not o['ok'] and (p, '%s|%s' % (o['rule'], o['key'])) not in known) + len(missing_rules(R, p))
    if any(nfail(R0, p) for p in ALL_PROPS):
        try:
            cands = flatten.helper_candidates(F0)
            if True:
                F1, rep = flatten.flatten(F0, set(cands))
                _, _, R1 = _run_on(F1)
                views.append(('helpers-inlined', R1))
                info['views'].append('helpers-inlined')
                info['inlined_helpers'] = rep
        except Exception as e:  # the normalised view is an extra; a failure here leaves the raw verdict
            info['flatten_error'] = '%r\n%s' % (e, traceback.format_exc())
    per_prop, chosen = {}, {}
    for p in ALL_PROPS:
        def rank(i):
            R_ = views[i][1]
            n_ = nfail(R_, p)
            if n_ == 0:
                return (0, 0, 0, i)
            # both views fail: report the one that names a construct (a rule violation) rather than a lost anchor, then the shorter list
            real = any(not o['ok'] and o['status'] == 'VIOLATION' and (p, '%s|%s' % (o['rule'], o['key'])) not in known for o in R_.for_prop(p))
            return (1, 0 if real else 1, n_, i)
        best = min(range(len(views)), key=rank)
        # a property that holds in the raw view is still reported if the normalised view (same program, helpers and adaptor closures
        # made explicit) names a construct that violates a rule: the raw rules can be blind to what a generic helper or a closure does
        if best == 0 and len(views) > 1 and STRICT_VIEWS:
            R_ = views[1][1]
            if any(not o['ok'] and o['status'] == 'VIOLATION' and (p, '%s|%s' % (o['rule'], o['key'])) not in known for o in R_.for_prop(p)):
                best = 1
        chosen[p] = views[best][0]
        per_prop[p] = [dict(o, props=(p,)) for o in views[best][1].for_prop(p)]
        for r in missing_rules(views[best][1], p):
            per_prop[p].append(dict(rule=r, key='floor:rule-present', ok=False, msg='rule %s produced no instance for %s (anchor lost?)' % (r, p), where='', props=(p,), witness=None, status='FLOOR'))
    info['chosen'] = chosen
    return F0, roles0, MergedReport(per_prop, chosen), info
