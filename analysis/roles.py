"""Role resolution: finds pie's internal functions/fields by what they are (types, callees), not by
where they are. Public API names (traits, DAG methods, enum variants) are the primitive anchors.
Every role is resolved on each run and listed in the evidence; an unresolved role fails closed."""
import re

from core import strip_generics, type_head
from report import AnchorMissing

DAG = 'pie_graph::DAG::'


def split_generic_args(t):
    """'A<B, C<D, E>>' -> ['B', 'C<D, E>']"""
    i = t.find('<')
    if i < 0:
        return []
    depth = 0
    cur = ''
    out = []
    for c in t[i + 1:]:
        if c == '<':
            depth += 1
        elif c == '>':
            if depth == 0:
                break
            depth -= 1
        if c == ',' and depth == 0:
            out.append(cur.strip())
            cur = ''
        else:
            cur += c
    if cur.strip():
        out.append(cur.strip())
    return out


class Roles:
    def __init__(self, F):
        self.F = F
        self.table = {}
        self.deps_from = None
        self.td_make = self.td_check = None
        self._resolve_types()
        self._resolve_store_methods()
        self._resolve_store_queries()
        self._resolve_exec_sites()

    def note(self, role, value):
        self.table[role] = value

    def need(self, role):
        v = getattr(self, role, None)
        if v is None:
            raise AnchorMissing(role)
        return v

    # ---------------------------------------------------------------------------------------
    def _resolve_types(self):
        F = self.F
        self.store_adt = None
        self.dep_enum = None
        self.node_data = None
        for p, a in F.adts.items():
            if a['kind'] != 'struct' or a['crate'] != 'pie':
                continue
            for f in a['variants'][0]['fields']:
                ty = f['ty'].replace('crate::', 'pie::')
                if type_head(ty) == 'pie_graph::DAG':
                    ga = split_generic_args(ty)
                    if len(ga) >= 2:
                        self.store_adt = p
                        self.graph_field = f['name']
                        self.node_data = type_head(ga[0])
                        self.dep_enum = type_head(ga[1])
        self.note('Store', self.store_adt)
        self.note('Dependency', self.dep_enum)
        # task/resource node newtypes: tuple structs of pie wrapping pie_graph::Node, told apart by the store maps
        self.task_node = self.resource_node = None
        if self.store_adt:
            for f in F.adts[self.store_adt]['variants'][0]['fields']:
                ty = f['ty'].replace('crate::', 'pie::')
                if type_head(ty) == 'std::collections::HashMap':
                    ga = split_generic_args(ty)
                    if len(ga) >= 2:
                        if 'TaskObj' in ga[0]:
                            self.task_node = type_head(ga[1])
                            self.task_map_field = f['name']
                            self.task_map_key = ga[0]
                        elif 'KeyObj' in ga[0]:
                            self.resource_node = type_head(ga[1])
                            self.resource_map_field = f['name']
                            self.resource_map_key = ga[0]
        self.note('TaskNode', self.task_node)
        self.note('ResourceNode', self.resource_node)
        # session struct
        self.session_adt = None
        self.tracking_adt = 'pie::pie::Tracking'
        for p, a in F.adts.items():
            if a['kind'] != 'struct' or a['crate'] != 'pie':
                continue
            fields = {f['name']: f['ty'].replace('crate::', 'pie::') for f in a['variants'][0]['fields']}
            cur = [n for n, t in fields.items() if self.task_node and re.fullmatch(r'std::option::Option<%s>' % re.escape(self.task_node), t)]
            cons = [n for n, t in fields.items() if self.task_node and t.startswith('std::collections::HashSet<%s' % self.task_node)]
            errs = [n for n, t in fields.items() if t.startswith('std::vec::Vec<std::boxed::Box<dyn std::error::Error')]
            if len(cur) == 1 and len(cons) == 1 and len(errs) == 1:
                self.session_adt = p
                self.f_cur = cur[0]
                self.f_consistent = cons[0]
                self.f_errors = errs[0]
                self.f_store = next((n for n, t in fields.items() if self.store_adt and self.store_adt in t), None)
                self.f_tracker = next((n for n, t in fields.items() if 'Tracking' in t), None)
                # the wrapper type around the tracker (wherever it is declared): the type of that field
                self.tracking_adt = type_head(fields[self.f_tracker].lstrip('&').replace('mut ', '', 1).strip()) if self.f_tracker else 'pie::pie::Tracking'
                self.f_state = next((n for n, t in fields.items() if 'TypeToAnyMap' in t), None)
        self.note('Session', self.session_adt)
        if self.session_adt:
            self.note('Session.fields', dict(cur=self.f_cur, consistent=self.f_consistent, errors=self.f_errors,
                                             store=self.f_store, tracker=self.f_tracker, state=self.f_state))

    # ---------------------------------------------------------------------------------------
    def store_methods(self):
        if not self.store_adt:
            return []
        return [b for b in self.F.bodies.values()
                if b.kind == 'AssocFn' and b.impl_self and type_head(b.impl_self) == self.store_adt and not b.impl_trait
                and not b.is_test_code()]

    def _calls_any(self, body, qnames):
        return [c for b in self.F.with_closures(body) for c in b.find_calls(lambda c: c.qname in qnames)]

    def _one(self, role, cands):
        if len(cands) == 1:
            setattr(self, role, cands[0])
            self.note(role, cands[0].path)
        else:
            setattr(self, role, None)
            self.note(role, 'UNRESOLVED (%d candidates: %s)' % (len(cands), [c.path for c in cands]))

    def _resolve_store_methods(self):
        ms = self.store_methods()
        self._one('reset', [b for b in ms if self._calls_any(b, {DAG + 'remove_outgoing_edges_of_node'})])
        self._one('add_dep', [b for b in ms if self._calls_any(b, {DAG + 'add_edge'})])
        self._one('dep_mut', [b for b in ms if self._calls_any(b, {DAG + 'get_edge_data_mut'})])
        self._one('trans_req', [b for b in ms if self._calls_any(b, {DAG + 'contains_transitive_edge'})])
        self._one('topo_cmp', [b for b in ms if self._calls_any(b, {DAG + 'topo_cmp'})])
        ret = lambda b: b.local_ty(0)
        self._one('set_out', [b for b in ms if self._calls_any(b, {DAG + 'get_node_data_mut'}) and b.argc == 3
                              and 'ValueObj' in b.local_ty(3)])
        self._one('get_out', [b for b in ms if self._calls_any(b, {DAG + 'get_node_data'}) and 'ValueObj' in ret(b)
                              and ret(b).startswith('std::option::Option')])
        self._one('get_task', [b for b in ms if self._calls_any(b, {DAG + 'get_node_data'}) and 'TaskObj' in ret(b)])
        self._one('get_resource', [b for b in ms if self._calls_any(b, {DAG + 'get_node_data'}) and 'KeyObj' in ret(b)
                                   and 'TaskObj' not in ret(b)])
        adders = [b for b in ms if self._calls_any(b, {DAG + 'add_node'})]
        self._one('get_or_create_task', [b for b in adders if self.task_node and type_head(ret(b)) == self.task_node])
        self._one('get_or_create_resource', [b for b in adders if self.resource_node and type_head(ret(b)) == self.resource_node])

    # ---------------------------------------------------------------------------------------
    def variant_filter(self, method):
        """Which variants of the dependency enum pass the closures of a store query: frozenset of
        names, 'all' when nothing tests the enum, or None when undecidable."""
        F = self.F
        table = F.enum_table(self.dep_enum) if self.dep_enum else None
        if not table:
            return None
        def tests_enum(b):
            return any(g.kind == 'enum' and g.extra == self.dep_enum for g in b.guards.values())

        def with_helpers_inlined(b):
            """`d.is_write()` / `d.as_read()`-style accessors: local functions that test the enum on behalf of the closure are inlined
            into it for this evaluation (flatten.inline_dict + threading), so the closure's answer per variant can be read off."""
            hs = {F.callee_body(c).id for c in b.calls.values() if F.callee_body(c) is not None and F.callee_body(c).id != b.id
                  and F.callee_body(c).kind in ('Fn', 'AssocFn') and tests_enum(F.callee_body(c))}
            if not hs:
                return b
            try:
                import flatten
                from core import Body
                nd, inl = flatten.inline_dict(F, b.d, b.crate, hs, {})
                if not inl:
                    return b
                nd, _ = flatten.thread_dict(nd)
                nb = Body(F, b.crate, nd)
                nb.unit, nb.unit_is_test = getattr(b, 'unit', None), getattr(b, 'unit_is_test', False)
                return nb
            except Exception:
                return b
        # a named function handed to an iterator adaptor (`filter_map(reading_task)`) stands where a closure would
        fn_items = []
        for c in method.calls.values():
            if c.qname.startswith('std::iter::Iterator::') and len(c.args) >= 2 and not method.blocks[c.bb]['cleanup']:
                raw = method.blocks[c.bb]['term']['args'][1]
                k = raw.get('k') if isinstance(raw, dict) else None
                if isinstance(k, dict) and 'fn' in k and k['fn'].get('id') in F.bodies and F.bodies[k['fn']['id']].crate == method.crate:
                    fn_items.append(F.bodies[k['fn']['id']])
        cands = [(with_helpers_inlined(cb), True) for cb in list(F.closures_of(method)) + fn_items] + [(with_helpers_inlined(method), False)]
        testers = [(cb, is_clo) for cb, is_clo in cands if tests_enum(cb)]
        if not testers:
            return 'all'
        if len(testers) != 1:
            return None
        cb, is_clo = testers[0]
        accepted = set()
        for v in table.values():
            r = closure_result_under_variant(cb, self.dep_enum, v)
            # a closure is asked once per edge: it must always accept; a loop in the method itself accepts an edge of this variant on
            # some path and runs off the end of the iterator on another
            if r == 'yes' or (r == 'maybe' and not is_clo):
                accepted.add(v)
            elif r != 'no':
                return None
        return frozenset(accepted)

    def _resolve_store_queries(self):
        """Every store method that wraps a DAG adjacency getter: direction, variants passed, item type."""
        self.queries = {}
        getters = {
            DAG + 'get_incoming_edges': ('in', 'edges'), DAG + 'get_incoming_edge_data': ('in', 'data'),
            DAG + 'get_incoming_edge_nodes': ('in', 'nodes'), DAG + 'get_incoming_edge_node_data': ('in', 'node_data'),
            DAG + 'get_outgoing_edges': ('out', 'edges'), DAG + 'get_outgoing_edge_data': ('out', 'data'),
            DAG + 'get_outgoing_edge_nodes': ('out', 'nodes'), DAG + 'get_outgoing_edge_node_data': ('out', 'node_data'),
        }
        for m in self.store_methods():
            cs = [c for c in m.find_calls(lambda c: c.qname in getters)]
            if len(cs) != 1:
                continue
            c = cs[0]
            d, what = getters[c.qname]
            node_arg = m.orig_operand(c.args[1]) if len(c.args) > 1 else frozenset()
            item = None
            for dd in m.defs.get(0, []):
                if dd[0] == 'call' and dd[2].qname in ('std::iter::Iterator::filter_map', 'std::iter::Iterator::map') and len(dd[2].gargs) >= 2:
                    item = dd[2].gargs[1]
            self.queries[m.id] = dict(body=m, dir=d, what=what, variants=self.variant_filter(m), ret=m.local_ty(0), item=item,
                                      node_from_param=[o.key for o in node_arg if o.kind == 'arg'], getter=c)
        self.note('store queries', {q['body'].name: '%s %s %s' % (q['dir'], q['what'], sorted(q['variants']) if isinstance(q['variants'], frozenset) else q['variants'])
                                    for q in self.queries.values()})

    def query_of_call(self, call):
        b = self.F.callee_body(call)
        if b is not None:
            return self.queries.get(b.id)
        return None

    def is_writer_of(self, q):
        return q and q['dir'] == 'in' and q['ret'].startswith('std::option::Option<') and self.task_node in q['ret']

    def is_readers_of(self, q):
        return q and q['dir'] == 'in' and q.get('item') == self.task_node

    # ---------------------------------------------------------------------------------------
    def _resolve_exec_sites(self):
        """Functions of pie (outside the delegating impls) that call Task::execute or a TaskObj proxy."""
        F = self.F
        sites = []
        proxies = []
        for b in F.bodies.values():
            if b.crate != 'pie' or b.is_test_code():
                continue
            cs = b.find_calls(lambda c: c.qname in ('pie::Task::execute', 'pie::trait_object::task::TaskObj::execute_top_down',
                                                    'pie::trait_object::task::TaskObj::execute_bottom_up'))
            if not cs:
                continue
            if b.impl_trait in ('pie::Task', 'pie::trait_object::task::TaskObj'):
                proxies.append(b)
                continue
            sites.append((b, cs))
        self.exec_sites = sites
        self.exec_proxies = proxies
        self.note('exec_sites', [b.path for b, _ in sites])
        self.note('exec_proxies', [b.path for b in proxies])


def closure_result_under_variant(cb, enum_ty, variant):
    """Does closure `cb` produce a positive result (Some / true) when the tested enum value has
    `variant`? 'yes' | 'no' | 'maybe' | 'unknown'. Finite evaluation over the pruned CFG."""

    def infeasible(n):
        if isinstance(n, tuple):
            g = cb.guard_of(n[1], n[2])
            if g is not None and g.kind == 'enum':
                vs = g.variants()
                if vs is not None and g.extra == enum_ty and variant not in vs:
                    return True
                if vs is not None and len(vs) == 0:
                    return True
        return False

    seen = cb.reach([0], avoid=infeasible)
    blocks = {n for n in seen if not isinstance(n, tuple)}
    results = set()

    def const_of_local(l):
        vals = set()
        for d in cb.defs.get(l, []):
            if d[1] not in blocks:
                continue
            if d[0] == 'stmt' and d[3]['k'] == 'use' and 'k' in d[3]['op']:
                vals.add(d[3]['op']['k'].get('int'))
            elif d[0] == 'stmt' and d[3]['k'] == 'use':
                op = cb.facts.operand(d[3]['op'])
                if op[0] in ('c', 'm') and not op[1][1]:
                    vals |= const_of_local(op[1][0])
                else:
                    vals.add(None)
            else:
                vals.add(None)
        return vals

    def opt_of_local(l, depth=0):
        """'yes' / 'no' / 'unknown' for the Option values a local may hold on the examined paths"""
        out = set()
        for d in cb.defs.get(l, []):
            if d[1] not in blocks:
                continue
            if d[0] == 'stmt' and d[3]['k'] == 'aggr' and d[3]['ak'].get('adt', '').endswith('option::Option'):
                out.add('yes' if d[3]['ak']['variant'] == 'Some' else 'no')
            elif d[0] == 'stmt' and d[3]['k'] == 'use' and depth < 5:
                op = cb.facts.operand(d[3]['op'])
                if op[0] in ('c', 'm') and not op[1][1]:
                    out |= opt_of_local(op[1][0], depth + 1)
                else:
                    out.add('unknown')
            elif d[0] == 'call' and d[2].qname == 'std::option::Option::map' and d[2].args and d[2].args[0][0] in ('c', 'm') and not d[2].args[0][1][1] and depth < 5:
                out |= opt_of_local(d[2].args[0][1][0], depth + 1)
            else:
                out.add('unknown')
        return out or {'unknown'}

    for d in cb.defs.get(0, []):
        if d[1] not in blocks:
            continue
        if d[0] == 'stmt':
            rv = d[3]
            if rv['k'] == 'aggr' and rv['ak'].get('adt', '').endswith('option::Option'):
                results.add('yes' if rv['ak']['variant'] == 'Some' else 'no')
            elif rv['k'] == 'use' and 'k' in rv['op'] and rv['op']['k'].get('ty') == 'bool':
                results.add('yes' if rv['op']['k'].get('int') == '1' else 'no')
            elif rv['k'] == 'use':
                op = cb.facts.operand(rv['op'])
                if op[0] in ('c', 'm') and not op[1][1] and cb.local_ty(op[1][0]) == 'bool':
                    for v in const_of_local(op[1][0]):
                        results.add({'1': 'yes', '0': 'no'}.get(v, 'unknown'))
                else:
                    results.add('unknown')
            else:
                results.add('unknown')
        else:
            call = d[2]
            if call.qname in ('core::bool::then', 'core::bool::then_some', 'std::primitive::bool::then', 'bool::then', 'bool::then_some') or \
                    (call.name in ('then', 'then_some') and call.impl_self == 'bool'):
                a = call.args[0]
                if a[0] in ('c', 'm') and not a[1][1]:
                    for v in const_of_local(a[1][0]):
                        results.add({'1': 'yes', '0': 'no'}.get(v, 'unknown'))
                else:
                    results.add('unknown')
            elif call.qname == 'std::option::Option::map' and call.args and call.args[0][0] in ('c', 'm') and not call.args[0][1][1]:
                results |= opt_of_local(call.args[0][1][0])  # Some stays Some, None stays None
            elif call.qname in ('std::cmp::PartialEq::eq', 'std::cmp::PartialEq::ne'):
                results.add('maybe')  # value-dependent answer (e.g. `data.task == task`), reached only under this variant
            else:
                results.add('unknown')
    if not results:
        return 'unknown'
    if results == {'yes'}:
        return 'yes'
    if results == {'no'}:
        return 'no'
    if 'unknown' in results:
        return 'unknown'
    return 'maybe'
