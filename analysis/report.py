"""Obligation / violation bookkeeping shared by all rule groups."""
from collections import OrderedDict


class AnchorMissing(Exception):
    pass


class Report:
    def __init__(self):
        self.obs = []  # dicts: rule, key, ok, msg, where, props, status
        self._seen = set()

    def ob(self, rule, key, ok, msg, where='', props=(), witness=None, status=None):
        """Record one obligation (rule instance). key identifies the instance without line numbers."""
        k = (rule, key)
        if k in self._seen:
            # an instance is recorded once; a failing duplicate overrides a passing one
            for o in self.obs:
                if (o['rule'], o['key']) == k:
                    if not ok and o['ok']:
                        o.update(ok=False, msg=msg, where=where, witness=witness, status=status or 'VIOLATION')
                    o['props'] = tuple(sorted(set(o['props']) | set(props)))
            return ok
        self._seen.add(k)
        self.obs.append(dict(rule=rule, key=key, ok=bool(ok), msg=msg, where=where, props=tuple(props), witness=witness,
                             status=status or ('ok' if ok else 'VIOLATION')))
        return ok

    def missing(self, rule, role, msg, props=()):
        """A role/anchor could not be resolved: fail closed, distinguishable from a rule violation."""
        return self.ob(rule, 'anchor:' + role, False, 'ANCHOR-MISSING %s: %s' % (role, msg), props=props, status='ANCHOR-MISSING')

    def undecided(self, rule, key, msg, where='', props=()):
        return self.ob(rule, key, False, 'UNDECIDED: ' + msg, where=where, props=props, status='UNDECIDED')

    def floor(self, rule, what, found, expected, props=()):
        """Fail closed when a rule matched fewer instances than were counted by hand."""
        ok = found >= expected
        return self.ob(rule, 'floor:' + what, ok, '%s: matched %d instance(s), floor %d' % (what, found, expected), props=props,
                       status=None if ok else 'FLOOR')

    def for_prop(self, prop):
        return [o for o in self.obs if prop in o['props']]

    def rules_for_prop(self, prop):
        d = OrderedDict()
        for o in self.for_prop(prop):
            e = d.setdefault(o['rule'], {'obligations': 0, 'discharged': 0})
            e['obligations'] += 1
            e['discharged'] += 1 if o['ok'] else 0
        return d
