"""Debug aid: pretty-print the MIR facts of bodies whose path contains a substring."""
import sys, os
sys.path.insert(0, os.path.dirname(os.path.abspath(__file__)))
from core import Facts
import extract

def fmt_place(p):
    l, proj = p
    s = '_%d' % l
    for e in proj:
        if e == '*': s = '(*%s)' % s
        elif isinstance(e, tuple) and e[0] == 'f': s += '.%s' % e[2]
        elif isinstance(e, tuple) and e[0] == 'd': s = '(%s as %s)' % (s, e[1])
        elif isinstance(e, tuple) and e[0] == 'ix': s += '[_%d]' % e[1]
        else: s += '[%s]' % (e,)
    return s

def fmt_op(o):
    if o[0] == 'c': return 'copy ' + fmt_place(o[1])
    if o[0] == 'm': return 'move ' + fmt_place(o[1])
    if o[0] == 'k':
        c = o[1]
        if 'fn' in c: return 'fn ' + c['fn']['path']
        return 'const ' + c.get('int', c.get('v', '?'))
    return str(o)

def fmt_rv(F, rv):
    k = rv['k']
    if k == 'use': return fmt_op(F.operand(rv['op']))
    if k == 'ref': return ('&mut ' if rv['mut'] else '&') + fmt_place(F.place(rv['pl']))
    if k == 'rawptr': return '&raw ' + fmt_place(F.place(rv['pl']))
    if k == 'cast': return '%s as %s (%s)' % (fmt_op(F.operand(rv['op'])), rv['ty'], rv['ck'])
    if k == 'bin': return '%s(%s, %s)' % (rv['bop'], fmt_op(F.operand(rv['a'])), fmt_op(F.operand(rv['b'])))
    if k == 'un': return '%s(%s)' % (rv['uop'], fmt_op(F.operand(rv['a'])))
    if k == 'discr': return 'discriminant(%s)' % fmt_place(F.place(rv['pl']))
    if k == 'aggr': return 'aggr %s [%s]' % (rv['ak'], ', '.join(fmt_op(F.operand(o)) for o in rv['ops']))
    return str(rv)

def show(F, b):
    print('=' * 100)
    print('fn %s   [%s]  %s:%d  kind=%s argc=%d impl_self=%s impl_trait=%s parent=%s' % (b.path, b.id, b.file, b.line, b.kind, b.argc, b.impl_self, b.impl_trait, b.parent))
    for i, l in enumerate(b.locals):
        print('   let _%d: %s%s' % (i, l['ty'], '  // ' + l['n'] if 'n' in l else ''))
    for i, bl in enumerate(b.blocks):
        print(' bb%d%s:' % (i, ' (cleanup)' if bl['cleanup'] else ''))
        for s in bl['stmts']:
            if s['k'] == 'a':
                print('     %s = %s   // L%d' % (fmt_place(F.place(s['p'])), fmt_rv(F, s['rv']), s['ln']))
            else:
                print('     %s' % s)
        t = bl['term']
        if t['k'] == 'call':
            c = b.calls[i]
            extra = ''
            if c.resolved: extra = '  => ' + c.resolved
            print('     %s = %s(%s) -> %s uw=%s   // L%d gargs=%s%s' % (fmt_place(c.dest), c.qname, ', '.join(fmt_op(a) for a in c.args), 'bb%d' % c.target if c.target is not None else 'DIVERGE', c.unwind, c.line, c.gargs, extra))
        elif t['k'] == 'switch':
            print('     switch %s -> %s otherwise bb%d' % (fmt_op(F.operand(t['op'])), ', '.join('%s: bb%d' % (v, tg) for v, tg in t['arms']), t['otherwise']))
            for k in range(len(b.succ[i])):
                g = b.guard_of(i, k)
                if g: print('        edge %d: %s' % (k, g.describe()))
        elif t['k'] in ('goto',): print('     goto bb%d' % t['t'])
        elif t['k'] == 'drop': print('     drop(%s) -> bb%d' % (fmt_place(F.place(t['pl'])), t['t']))
        elif t['k'] == 'assert': print('     assert(%s == %s) -> bb%d  %s' % (fmt_op(F.operand(t['cond'])), t['expected'], t['t'], t['msg']))
        else: print('     %s' % t['k'])

if __name__ == '__main__':
    repo = os.environ.get('PIE_REPO', '/repo')
    F = Facts(os.environ.get('PIE_FACTS') or extract.facts_dir(repo, os.environ.get('PIE_CONFIG', 'all')))
    for pat in sys.argv[1:]:
        for b in sorted(F.bodies.values(), key=lambda b: b.id):
            if pat in b.path or pat in b.id:
                show(F, b)
