"""Mutant self-test: run catalogue entries in parallel; report killed / survived / skipped."""
import json, os, sys, shutil, tempfile, time
from concurrent.futures import ThreadPoolExecutor
HERE = os.path.dirname(os.path.abspath(__file__))
sys.path.insert(0, HERE)
sys.path.insert(0, os.path.join(os.path.dirname(HERE), 'mutants'))
import mutate, engine, extract


def runner(fd):
    import check as checkmod
    known = {k for (_p, k) in checkmod.load_known()}
    F, roles, R, _vinfo = engine.run_best(fd)
    R.obs = [o for o in R.obs if o['ok'] or checkmod.vkey(o) not in known]  # recorded open findings are not self-test signals
    return [dict(rule=o['rule'], key=o['key'], status=o['status'], props=list(o['props']), msg=o['msg'][:400]) for o in R.obs if not o['ok']]


def run(mutants, repo='/repo', jobs=8, verbose=False):
    extract.ensure_driver()
    os.environ.setdefault('PIE_EXTRACT_JOBS', '3')
    base = tempfile.mkdtemp(prefix='pie-selftest-')
    results = {}
    try:
        import queue
        tds = queue.Queue()
        for i in range(jobs):
            tds.put(os.path.join(base, 'target%d' % i))

        def one(mu):
            td = tds.get()
            try:
                t0 = time.time()
                r = mutate.run_mutant(repo, mu, td, runner)
                r['wall_s'] = round(time.time() - t0, 1)
                return mu['id'], r
            finally:
                tds.put(td)
        with ThreadPoolExecutor(max_workers=jobs) as ex:
            for mid, r in ex.map(one, mutants):
                results[mid] = r
    finally:
        shutil.rmtree(base, ignore_errors=True)
    return results


def verdict(mu, r):
    if r['status'] != 'applied':
        return r['status']
    rules = {f['rule'] for f in r['failing']}
    if not mu['expect']:
        return 'ok-silent' if not r['failing'] else 'FALSE-ALARM'
    if any(e in rules or any(x.startswith(e) for x in rules) for e in mu['expect']):
        return 'killed'
    if r['failing']:
        return 'killed-other'
    return 'SURVIVED'


if __name__ == '__main__':
    import catalogue
    ids = [a for a in sys.argv[1:] if not a.startswith('-')]
    ms = [mu for mu in catalogue.M if not ids or mu['id'] in ids or any(mu['id'].startswith(i) for i in ids)]
    res = run(ms, repo=os.environ.get('PIE_REPO', '/repo'), jobs=int(os.environ.get('JOBS', '8')))
    for mu in ms:
        r = res[mu['id']]
        v = verdict(mu, r)
        print('%-14s %-32s expect=%s got=%s %s' % (v, mu['id'], mu['expect'], sorted({f['rule'] for f in r['failing']}), r.get('note', '')[:300] if v in ('skipped', 'build-failed') else ''))
