"""C19: crash-point enumeration — the static counterpart of fault injection.

A crash point is a call that may unwind out of library code because it can reach user code (task,
checker, resource, tracker, write function, user Clone/Eq/Hash/Debug/Drop) while a two-phase
protocol on state that outlives the unwinding is open. Its residue is the set of open protocols.
U1: every residue kind is on the tolerated table. U2: the readers of each tolerated residue are
tolerant (no internal-invariant abort on the transient state). U3 (validate-before-modify) is the
OPS-write ordering rule, tagged C19 in rules_protocol."""
from core import Event, type_head, CLOSURE_CALLS
from roles import DAG
from rules_build import is_callee, ancestors
from rules_protocol import ev_call_to, refined_infeasible, reaches_exec, T_EXEC, _assume_wrap

USER_TRAITS = ('pie::Task', 'pie::OutputChecker', 'pie::ResourceChecker', 'pie::Resource', 'pie::tracker::Tracker', 'pie::trait_object::task::TaskObj',
               'pie::context::top_down::TopDownCheckObj', 'pie::dependency::TaskDependencyObj', 'pie::dependency::ResourceDependencyObj')
USER_VALUE_TRAITS = ('std::clone::Clone', 'std::cmp::PartialEq', 'std::hash::Hash', 'std::fmt::Debug', 'std::borrow::ToOwned', 'dyn_clone::DynClone',
                     'pie::trait_object::base::EqObj', 'pie::trait_object::base::HashObj', 'std::default::Default')
TOLERATED = {
    'P1': 'executing-task field left set: every build entry point assigns None before building (U2-P1)',
    'P2': 'reserved require edge left in the graph: every reader of dependencies treats it as "owner not consistent" and never aborts on it (U2-P2)',
    'P3': 'task reset but no output stored: a task without output is executed as new; every expect on a missing output is guarded (U2-P3)',
    'P4': 'writer created / resource written but no write dependency recorded: the task has no output (P3) and is re-executed, which rewrites the resource and records the dependency',
    'P5': 'graph node added but key not mapped: the orphan node has no edges and is unreachable by key; the next lookup creates a fresh node',
}


def is_generic_or_dyn(ty):
    t = (ty or '').replace('&mut ', '').replace('&', '').strip()
    return t.startswith('dyn ') or len(t) <= 2 or t.startswith('<') or 'dyn ' in t or t.startswith('impl ')


def may_reach_user(ctx, body, memo, depth=0):
    """Does `body` (transitively, through pie's own functions) contain a call into user code?"""
    if body.id in memo:
        return memo[body.id]
    memo[body.id] = False
    res = False
    for c in body.calls.values():
        if body.blocks[c.bb]['cleanup']:
            continue
        if user_call(ctx, body, c, memo, depth):
            res = True
            break
    memo[body.id] = res
    return res


def user_call(ctx, body, c, memo, depth=0):
    if c.trait in USER_TRAITS and ctx.F.callee_body(c) is None:
        return True
    if c.trait in USER_VALUE_TRAITS and is_generic_or_dyn(c.self_ty):
        return True
    if c.qname in CLOSURE_CALLS and ctx.F.callee_body(c) is None:
        return True
    if c.qname.startswith('dyn_clone::'):
        return True
    cb = ctx.F.callee_body(c)
    if cb is not None and cb.crate == 'pie' and depth < 12:
        return may_reach_user(ctx, cb, memo, depth + 1)
    if c.trait in USER_TRAITS and cb is None:
        return True
    return False


def rule_crash(ctx):
    R, F, roles = ctx.R, ctx.F, ctx.roles
    P = ('C19',)
    if not (roles.reset and roles.set_out and roles.add_dep and roles.dep_mut):
        R.missing('U1', 'store roles', 'reset/set_out/add_dep/dep_mut not resolved', props=P)
        return
    memo = {}
    # protocol open / close events (with callee summaries)
    ev_reset = ev_call_to(ctx, roles.reset, 'reset', [1])
    ev_setout = ev_call_to(ctx, roles.set_out, 'set_out', [1])

    def m_reserve(body, node):
        if isinstance(node, tuple):
            return None
        c = body.call_at(node)
        if c is None or not is_callee(ctx, c, roles.add_dep):
            return None
        return ('r',) if ctx.dep_variants(body, c.args[3]) == {'ReservedRequire'} else None

    def m_update(body, node):
        if isinstance(node, tuple):
            return None
        for (bb, si, place, rv, ln) in body.stores:
            if bb == node and any(o.kind == 'call' and is_callee(ctx, body.calls[o.key], roles.dep_mut) for o in body.orig_local(place[0]) if o.key in body.calls):
                return ('u',)
        return None

    def m_adddep_write(body, node):
        if isinstance(node, tuple):
            return None
        c = body.call_at(node)
        if c is None or not is_callee(ctx, c, roles.add_dep):
            return None
        return ('w',) if ctx.dep_variants(body, c.args[3]) == {'Write'} else None
    ev_reserve, ev_update, ev_addw = Event('reserve', m_reserve), Event('update', m_update), Event('add-write', m_adddep_write)
    for _e in (ev_reserve, ev_update, ev_addw):
        _assume_wrap(ctx, _e)  # these helpers are guarded by `if let Some(cur) = current_executing_task`

    def opens_closes(body):
        out = {}
        # P1
        o1 = {c.bb for c in body.find_calls(lambda c: c.qname == 'std::option::Option::replace' and ctx.is_cur(body.orig_operand(c.args[0])))}
        c1 = {bb for (bb, si, pl, rv, ln) in body.stores if ctx.is_cur(body.orig_place(pl))}
        out['P1'] = (o1, c1)
        out['P2'] = (ev_reserve.blocks_with(body), ev_update.blocks_with(body))
        out['P3'] = (ev_reset.blocks_with(body), ev_setout.blocks_with(body))
        out['P4'] = ({c.bb for c in body.find_calls(lambda c: c.qname == 'pie::Resource::write')}, ev_addw.blocks_with(body))
        out['P5'] = ({c.bb for c in body.find_calls(lambda c: c.qname == DAG + 'add_node')},
                     {c.bb for c in body.find_calls(lambda c: c.qname == 'std::collections::HashMap::insert')})
        return out
    points = []
    for body in F.bodies.values():
        if body.crate != 'pie' or body.is_test_code() or body.kind == 'Closure':
            continue
        oc = opens_closes(body)
        if not any(o for o, _ in oc.values()):
            continue
        inf = ctx.infeasible(body)
        inside = {}
        for p, (opens, closes) in oc.items():
            for ob in opens:
                seen = body.reach(body.xsucc(ob), avoid=ctx.both(inf, lambda n: n in closes))
                for n in seen:
                    if not isinstance(n, tuple):
                        inside.setdefault(n, set()).add(p)
        for bb, ps in sorted(inside.items()):
            c = body.call_at(bb)
            if c is None or not user_call(ctx, body, c, memo):
                continue
            points.append((body, c, frozenset(ps)))
    ctx.crash_points = points
    kinds = {}
    for body, c, ps in points:
        for p in ps:
            kinds.setdefault(p, []).append((body, c))
        unknown = [p for p in ps if p not in TOLERATED]
        R.ob('U1-crash-point', '%s#%s@%s' % (body.path, c.qname.split('::')[-1], ','.join(sorted(ps))), not unknown,
             'may unwind into user code with open protocol(s) %s: residue tolerated' % ','.join(sorted(ps)) if not unknown else 'residue of an unknown kind: %s' % unknown,
             ctx.where(body, c.bb), props=P)
    R.floor('U1', 'crash points inside open protocols', len(points), 8, props=P)
    for p in ('P1', 'P2', 'P3'):
        R.ob('U1-kind', p, bool(kinds.get(p)), '%d crash point(s) leave residue %s: %s' % (len(kinds.get(p, [])), p, TOLERATED[p]) if kinds.get(p)
             else 'no crash point found for protocol %s (enumeration lost its anchors?)' % p, '', props=P)
    # ---- U2-P1: build entry points reset the executing-task field before building
    entries = []
    for b in F.bodies.values():
        if b.crate != 'pie' or b.is_test_code() or b.kind != 'AssocFn':
            continue
        if any(F.callee_body(c) is not None and F.callee_body(c).name == 'build' and type_head(F.callee_body(c).impl_self or '') == ctx.roles.tracking_adt for c in b.calls.values()):
            entries.append(b)
        elif b.impl_trait != 'pie::tracker::Tracker' and type_head(b.impl_self or '') != ctx.roles.tracking_adt and \
                any(c.trait == 'pie::tracker::Tracker' and c.name == 'build_start' and not b.blocks[c.bb]['cleanup'] for c in b.calls.values()):
            entries.append(b)  # the build pair emitted directly by the entry point
    R.floor('U2-P1', 'build entry points', len(entries), 2, props=P)
    for b in entries:
        inf = ctx.infeasible(b)
        resets = set()
        for (bb, si, pl, rv, ln) in b.stores:
            if ctx.is_cur(b.orig_place(pl)) and rv['k'] == 'use':
                vo = b.orig_operand(F.operand(rv['op']))
                if vo and all(o.kind == 'aggr' and b.blocks[o.key[0]]['stmts'][o.key[1]]['rv']['ak'].get('variant') == 'None' for o in vo):
                    resets.add(bb)
            elif ctx.is_cur(b.orig_place(pl)) and rv['k'] == 'aggr' and rv['ak'].get('variant') == 'None':
                resets.add(bb)
        for c in b.calls.values():
            if c.qname in ('std::option::Option::take', 'std::mem::take') and c.args and ctx.is_cur(b.orig_operand(c.args[0])):
                resets.add(c.bb)
        runs = [c for c in b.calls.values() if F.callee_body(c) is not None and reaches_exec(ctx, F.callee_body(c)) and not b.blocks[c.bb]['cleanup']]
        bad = [c for c in runs if b.must_before(c.bb, ctx.both(inf, lambda n: n in resets)) is not None]
        R.ob('U2-P1-entry-resets', b.path, bool(runs) and not bad, 'the executing-task field is cleared before the build starts (a value left by an aborted build cannot attribute dependencies to a dead task)'
             if runs and not bad else 'a build can start with the executing-task field left over from an aborted build', ctx.where(b), props=P)
    # ---- U2-P2: nobody aborts on the transient ReservedRequire variant
    dep = roles.dep_enum
    n = 0
    for b in F.bodies.values():
        if b.crate != 'pie' or b.is_test_code() or b.d.get('from_expansion'):
            continue
        tested = [(k, gd) for k, gd in b.guards.items() if gd.kind == 'enum' and gd.extra == dep and gd.variants() and 'ReservedRequire' in gd.variants()]
        if not tested:
            continue
        n += 1

        def only_reserved(node, b=b):
            if isinstance(node, tuple):
                gd = b.guard_of(node[1], node[2])
                if gd is not None and gd.kind == 'enum' and gd.extra == dep:
                    vs = gd.variants()
                    return vs is not None and 'ReservedRequire' not in vs
            return False
        avoid = refined_infeasible(ctx, b, extra=only_reserved)
        div = None
        for (bb, k), gd in tested:
            seen = b.reach([('e', bb, k)], avoid=avoid)
            for x in seen:
                if not isinstance(x, tuple) and b.is_diverging_block(x) and b.blocks[x]['term']['k'] == 'call':
                    # a panic that is reachable for every variant alike (e.g. "node not found") does not count: require that it is reachable only under this variant
                    other = b.reach([0], avoid=refined_infeasible(ctx, b, extra=lambda node: isinstance(node, tuple) and b.guard_of(node[1], node[2]) is not None and b.guard_of(node[1], node[2]).kind == 'enum'
                                                                  and b.guard_of(node[1], node[2]).extra == dep and b.guard_of(node[1], node[2]).variants() == frozenset(['ReservedRequire'])))
                    if x not in other:
                        div = x
        R.ob('U2-P2-tolerant', b.path, div is None, 'a leftover reserved require dependency never leads to an abort here' if div is None
             else 'a reserved require dependency left by an aborted build makes this code abort (%s): the instance is unusable after an abort' % (b.call_at(div).qname if b.call_at(div) else 'panic'),
             ctx.where(b, div) if div is not None else ctx.where(b), props=P)
    R.floor('U2-P2', 'consumers that distinguish the ReservedRequire variant', n, 1, props=P)
    # ---- U2-P3: every expect/unwrap on a missing output is guarded
    n = 0
    ordinal = {}
    for b in F.bodies.values():
        if b.crate != 'pie' or b.is_test_code():
            continue
        outs = [c for c in b.calls.values() if is_callee(ctx, c, roles.get_out)]
        if not outs:
            continue
        ob = {c.bb for c in outs}
        for e in b.find_calls(lambda c: c.qname in ('std::option::Option::expect', 'std::option::Option::unwrap') and c.args and ob & ctx.base_call_bbs(b.orig_operand(c.args[0]))
                              and all(not o.path for o in b.orig_operand(c.args[0]))):
            n += 1
            ordinal[b.id] = ordinal.get(b.id, 0) + 1
            src = [c for c in outs if c.bb in ctx.base_call_bbs(b.orig_operand(e.args[0]))][0]
            node = b.orig_operand(src.args[1])
            req = b.edges_required_for(e.bb)
            ok = False
            for gd in req:
                if gd.kind == 'bool':
                    for sc in gd.subject_calls():
                        if sc.qname == 'std::collections::HashSet::contains' and ctx.has_field(b.orig_operand(sc.args[0]), roles.f_consistent) and gd.truth() is True:
                            ok = True
                        if sc.qname in ('std::option::Option::is_none', 'std::option::Option::is_some'):
                            srcs = [c for c in outs if c.bb in ctx.base_call_bbs(b.orig_operand(sc.args[0]))]
                            if srcs and b.orig_operand(srcs[0].args[1]) == node and gd.truth() is (sc.qname.endswith('is_some')):
                                ok = True
                elif gd.kind == 'enum' and gd.variants() == frozenset(['Some']):
                    srcs = [c for c in outs if c.bb in ctx.base_call_bbs(gd.origins)]
                    if srcs and b.orig_operand(srcs[0].args[1]) == node:
                        ok = True
            R.ob('U2-P3-guarded', b.path + '#' + e.name + '%d' % ordinal[b.id], ok,
                 'the output is demanded only where the task is known to have one (session memo, or tested just before)' if ok
                 else 'an internal-invariant abort (`%s` on a missing output) is reachable for a task whose execution was aborted' % e.name, ctx.where(b, e.bb), props=P)
    R.floor('U2-P3', 'expect/unwrap on cached outputs', n, 3, props=P)


def owner_validated(ctx, b):
    """Is there, in b, a guard on `consistent.contains(x)` (the session's set of tasks validated in this session)?"""
    for g in b.guards.values():
        for sc in g.subject_calls():
            if sc.qname.endswith('HashSet::contains') and sc.args and ctx.has_field(b.orig_operand(sc.args[0]), ctx.roles.f_consistent):
                return True
    return False


def rule_stale_residue(ctx):
    """C19 U2 (residue readers that can abort the build): the edges recorded by an execution that was
    later aborted (P2: the reserved edge; P3: the reads / writes / requires made before the abort) stay in
    the graph until their task is re-executed. Every validation query that can abort a later build must
    either disregard edges whose source task has no cached output, or the build entry points must purge
    such edges first. Where neither holds, a later session that no longer contains the violation can
    abort again (demonstrated against the real code: findings/stale_residue_demo.rs)."""
    R, F, roles = ctx.R, ctx.F, ctx.roles
    P = ('C19',)
    # (b) purge at build entry: an entry point must-calls, before anything that can execute, a store method other
    #     than the per-execution reset that removes edges
    removing = {b.id for b in F.bodies.values() if b.crate == 'pie' and not b.is_test_code() and b.impl_self and type_head(b.impl_self) == roles.store_adt
                and any(c.qname in (DAG + 'remove_outgoing_edges_of_node', DAG + 'remove_edge') for x in F.with_closures(b) for c in x.calls.values())}
    entries = [b for b in F.bodies.values() if b.crate == 'pie' and not b.is_test_code() and b.kind == 'AssocFn' and
               any(F.callee_body(c) is not None and F.callee_body(c).name == 'build' and type_head(F.callee_body(c).impl_self or '') == ctx.roles.tracking_adt for c in b.calls.values())]
    purged = bool(entries)
    for b in entries:
        inf = ctx.infeasible(b)
        runs = [c for c in b.calls.values() if F.callee_body(c) is not None and reaches_exec(ctx, F.callee_body(c)) and not b.blocks[c.bb]['cleanup']]
        purge_calls = {c.bb for c in b.calls.values() if F.callee_body(c) is not None and F.callee_body(c).id in removing}
        if not runs or any(b.must_before(c.bb, ctx.both(inf, lambda n: n in purge_calls)) is not None for c in runs):
            purged = False
    # (a) per site: the abort is guarded by "the owner of the recorded edge has an output"
    sites = []
    for b in F.bodies.values():
        if b.crate != 'pie' or b.is_test_code() or (b.impl_self and type_head(b.impl_self) == roles.store_adt):
            continue
        for c in b.calls.values():
            q = roles.query_of_call(c)
            if q is not None and (roles.is_writer_of(q) or roles.is_readers_of(q)):
                kind = 'recorded-writer' if roles.is_writer_of(q) else 'recorded-readers'
                sites.append((b, c, kind))
            elif is_callee(ctx, c, roles.add_dep) and ctx.dep_variants(b, c.args[3]) == {'ReservedRequire'}:
                sites.append((b, c, 'cycle-search'))
    R.floor('U2-stale-residue', 'validation queries that can abort a build', len(sites), 4, props=P)
    for b, c, kind in sites:
        owner_checked = False
        for g in b.guards.values():
            for sc in g.subject_calls():
                if is_callee(ctx, sc, roles.get_out) or (sc.name in ('is_some', 'is_none') and any(is_callee(ctx, x, roles.get_out) for x in ancestors(b, b.orig_operand(sc.args[0])).values())):
                    owner_checked = True
        ok = purged or owner_checked or owner_validated(ctx, b)  # the latter is the (stronger) condition of C20's S20-unvalidated-edges
        side = ''
        if kind == 'recorded-writer':
            hr = getattr(ctx, 'ev_hr', None)
            side = '/reading-side' if (hr is not None and hr.match(b, c.bb) is not None) else '/writing-side'
        elif kind == 'recorded-readers':
            side = '/writing-side'
        # keyed by the construct (query kind and side), not by function names: a renamed helper is the same finding
        R.ob('U2-stale-residue', kind + side, ok,
             'edges left by aborted executions cannot make this query abort a later build' if ok else
             'the %s query consults edges recorded by executions that were later aborted (their task has no output and has not been re-executed yet); nothing purges them at build entry, '
             'so a later session in which the violation no longer exists can abort again' % kind, ctx.where(b, c.bb), props=P)
