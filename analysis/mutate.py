"""Checker self-test harness: apply a single source edit to a scratch copy of the repository,
prove that it still type-checks (`cargo check` through the driver), analyse the copy and report which
rule instances fail. No pie code is executed. Scratch copies live under a temp dir outside /repo
and /verif and are removed afterwards.

usage: mutate.py <mutant-id>... | --all | --patch file.diff   [--rules mod.fn,mod.fn]
"""
import json
import os
import shutil
import subprocess
import sys
import tempfile

HERE = os.path.dirname(os.path.abspath(__file__))
sys.path.insert(0, HERE)
import extract  # noqa: E402


def copy_repo(repo, dst):
    def ign(d, names):
        return [n for n in names if n in ('.git', 'target', '.idea')]
    shutil.copytree(repo, dst, ignore=ign, symlinks=True)


def apply_edit(root, edit):
    """edit: dict(file, find, replace[, count]) -> True if applied."""
    p = os.path.join(root, edit['file'])
    if not os.path.exists(p):
        return False
    s = open(p).read()
    n = s.count(edit['find'])
    if n == 0:
        return False
    if edit.get('unique', True) and n != 1:
        return False
    s = s.replace(edit['find'], edit['replace'], 1)
    open(p, 'w').write(s)
    return True


def analyse_copy(root, target_dir, config='all'):
    """Extract facts from the scratch copy. Returns (facts_dir or None, log)."""
    out = os.path.join(root, '.pie-facts')
    shutil.rmtree(out, ignore_errors=True)
    ok, log = extract.run_extract(root, config, out, target_dir=target_dir)
    return (out if ok else None), log


def run_mutant(repo, mutant, target_dir, rule_runner):
    """Returns dict(status=applied|skipped|build-failed, failing=[obligations])."""
    scratch = tempfile.mkdtemp(prefix='pie-mut-')
    root = os.path.join(scratch, 'repo')
    try:
        copy_repo(repo, root)
        if 'patch' in mutant:  # an independently seeded change kept as a unified diff (seeded/<id>/patch.diff)
            r = subprocess.run(['patch', '-p1', '-s', '-i', os.path.abspath(mutant['patch'])], cwd=root, stdout=subprocess.PIPE, stderr=subprocess.STDOUT, text=True)
            if r.returncode != 0:
                return dict(status='skipped', failing=[], note='patch does not apply: %s' % r.stdout[-300:])
        else:
            edits = mutant['edits'] if 'edits' in mutant else [mutant]
            for e in edits:
                if not apply_edit(root, e):
                    return dict(status='skipped', failing=[], note='edit does not apply to %s' % e['file'])
        fd, log = analyse_copy(root, target_dir)
        if fd is None:
            return dict(status='build-failed', failing=[], note=log[-1500:])
        failing = rule_runner(fd)
        return dict(status='applied', failing=failing)
    finally:
        shutil.rmtree(scratch, ignore_errors=True)


def apply_patch_copy(repo, patch):
    scratch = tempfile.mkdtemp(prefix='pie-mut-')
    root = os.path.join(scratch, 'repo')
    copy_repo(repo, root)
    r = subprocess.run(['patch', '-p1', '-s', '-i', os.path.abspath(patch)], cwd=root, stdout=subprocess.PIPE, stderr=subprocess.STDOUT, text=True)
    if r.returncode != 0:
        shutil.rmtree(scratch, ignore_errors=True)
        raise SystemExit('patch does not apply: ' + r.stdout)
    return scratch, root
