"""Rule groups for pie_graph (C10, C11, graph part of C07, ORD rules serving C02/C16).

The three redundant encodings of an edge src->dst are: dst in children(src), src in parents(dst),
(src,dst) in edge_data. The sync invariant (all three agree) is assumed at entry of every public
mutator and must hold again at every normal exit (E1 / G1)."""
from collections import namedtuple

from core import Origin, strip_generics, type_head
from roles import split_generic_args
from rules_build import ancestors
from rules_protocol import guard_edges_on_call

G = 'pie_graph::DAG::'
LHS = 'hashlink::LinkedHashSet::'
LHM = 'hashlink::LinkedHashMap::'
# hashlink 0.8.4: operations that re-link an element that is already present (frozen table; the thorough
# tier re-derives it from hashlink's own call graph)
REORDERING = {LHS + 'insert', LHS + 'to_front', LHS + 'to_back', LHM + 'insert', LHM + 'to_front', LHM + 'to_back',
              LHM + 'get_refresh', 'hashlink::linked_hash_map::OccupiedEntry::to_back', 'hashlink::linked_hash_map::OccupiedEntry::to_front',
              'hashlink::linked_hash_map::RawOccupiedEntryMut::to_back', 'hashlink::linked_hash_map::RawOccupiedEntryMut::to_front'}
SET_LIKE = ('hashlink::LinkedHashSet', 'std::collections::HashSet', 'std::collections::BTreeSet', 'hashlink::LinkedHashMap',
            'std::collections::HashMap', 'std::vec::Vec', 'std::collections::BTreeMap')
MUTATORS = ('add_edge', 'remove_edge', 'remove_outgoing_edges_of_node', 'remove_node', 'add_node')


def graph_bodies(ctx):
    return [b for b in ctx.F.bodies.values() if b.crate == 'pie_graph' and not b.is_test_code()]


def fields_used(F, body):
    """(adt, field name) pairs projected anywhere in body (and not its closures)."""
    out = set()

    def scan_place(p):
        for e in p['p']:
            if isinstance(e, dict) and 'f' in e:
                out.add((strip_generics(body.fix(e.get('a', ''))), e['n']))

    def scan_op(o):
        for k in ('c', 'm'):
            if k in o:
                scan_place(o[k])
    for b in body.blocks:
        if b['cleanup']:
            continue
        for s in b['stmts']:
            if s['k'] != 'a':
                continue
            scan_place(s['p'])
            rv = s['rv']
            for k in ('pl',):
                if k in rv:
                    scan_place(rv[k])
            for k in ('op', 'a', 'b'):
                if k in rv and isinstance(rv[k], dict):
                    scan_op(rv[k])
            for o in rv.get('ops', []):
                scan_op(o)
        t = b['term']
        if t['k'] == 'call':
            for a in t['args']:
                scan_op(a)
            scan_place(t['dest'])
        elif t['k'] == 'switch':
            scan_op(t['op'])
        elif t['k'] == 'drop':
            scan_place(t['pl'])
    return out


def resolve_graph(ctx):
    F = ctx.F
    g = {}
    dag = F.adts.get('pie_graph::DAG')
    if not dag:
        return None
    g['dag'] = 'pie_graph::DAG'
    for f in dag['variants'][0]['fields']:
        ty = f['ty'].replace('crate::', 'pie_graph::')
        h = type_head(ty)
        if h == 'slotmap::SlotMap':
            g['node_info'] = f['name']
            g['noderec'] = type_head(ty.split(',', 1)[1].strip().rstrip('>')) if ',' in ty else None
        elif h in ('std::collections::HashMap', 'hashlink::LinkedHashMap', 'std::collections::BTreeMap') and '(' in ty:
            g['edge_data'] = f['name']
            g['edge_data_ty'] = ty
        elif h == 'std::cell::Cell':
            g['scratch'] = f['name']
            # the fields of the scratch struct held in the cell (all of them must be cleared before reuse)
            inner = split_generic_args(ty)
            sa = F.adts.get(type_head(inner[0])) if inner else None
            g['scratch_fields'] = {x['name'] for x in sa['variants'][0]['fields']} if sa and sa['kind'] == 'struct' else set()
        elif ty in ('u32', 'u64', 'usize', 'pie_graph::TopoOrder'):
            g['last_rank'] = f['name']
    nr = F.adts.get(g.get('noderec') or '')
    if not nr:
        return None
    sets = []
    for f in nr['variants'][0]['fields']:
        ty = f['ty'].replace('crate::', 'pie_graph::')
        if type_head(ty) in SET_LIKE and 'pie_graph::Node' in ty:
            sets.append((f['name'], ty))
        elif ty in ('u32', 'u64', 'usize', 'pie_graph::TopoOrder'):
            g['rank'] = f['name']
    g['adj_fields'] = dict(sets)
    # children / parents by use in the public getters
    def side(getter):
        b = F.body_by_path(G + getter)
        if b is None:
            return None
        used = set()
        for x in F.with_closures(b):
            used |= {n for a, n in fields_used(F, x) if a == g['noderec'] and n in g['adj_fields']}
        return used
    out_used = side('get_outgoing_edges')
    in_used = side('get_incoming_edges')
    if out_used and len(out_used) == 1 and in_used and len(in_used) == 1 and out_used != in_used:
        g['children'] = next(iter(out_used))
        g['parents'] = next(iter(in_used))
    elif 'children' in g['adj_fields'] and 'parents' in g['adj_fields']:
        # the getters disagree with each other (that is what E4-side reports): fall back to the field names
        g['children'], g['parents'] = 'children', 'parents'
    for k, v in g.items():
        ctx.roles.note('graph.' + k, v)
    return g


# ------------------------------------------------------------------------------------------------
# classification of operations on the three encodings
# ------------------------------------------------------------------------------------------------

AdjOp = namedtuple('AdjOp', 'enc op node key call')


def _is_node_accessor(F, call, g):
    """a local helper `fn(&self, key) -> &NodeRecord` whose result is node_info[key] / node_info.get(key).unwrap() (today: get_node)"""
    cb = F.callee_body(call)
    if cb is None or cb.crate != 'pie_graph' or cb.argc != 2:
        return False
    cache = F.__dict__.setdefault('_node_acc', {})
    if cb.id not in cache:
        ok = False
        for c in cb.calls.values():
            if c.name in ('index', 'get', 'get_unchecked') and len(c.args) >= 2 and any(('f', g['node_info']) in x.path and x.kind == 'arg' and x.key == 1 for x in cb.orig_operand(c.args[0])) \
                    and all(x.kind == 'arg' and x.key == 2 for x in cb.orig_operand(c.args[1])) and any(x.kind == 'call' and x.key == c.bb for x in cb.orig_local(0)):
                ok = True
        cache[cb.id] = ok and g.get('noderec', '') in cb.local_ty(0)
    return cache[cb.id]


def _slot_key_of(body, origins, g):
    """For origins like call(index/get/get_mut on node_info).<field>: the origins of the slot-map key."""
    out = set()
    for o in origins:
        if o.kind == 'call' and o.key in body.calls:
            c = body.calls[o.key]
            if c.name in ('index', 'index_mut', 'get', 'get_mut', 'remove', 'get_unchecked', 'get_unchecked_mut') and len(c.args) >= 2 and \
                    any(('f', g['node_info']) in x.path for x in body.orig_operand(c.args[0])):
                out |= set(body.orig_operand(c.args[1]))
            elif len(c.args) >= 2 and _is_node_accessor(body.facts, c, g):
                out |= set(body.orig_operand(c.args[1]))
            else:
                out.add(o)
        else:
            out.add(o)
    return frozenset(out)


def strip_path(origins, drop=(('f', '0'),)):
    """Node(DefaultKey): `.0` of a Node denotes the same node."""
    return frozenset(Origin(o.kind, o.key, tuple(p for p in o.path if p not in drop)) for o in origins)


def classify(ctx, g, body, call):
    if not call.args or call.args[0][0] not in ('c', 'm'):
        return None
    recv = body.orig_operand(call.args[0])
    if not recv:
        return None
    name = call.name
    fields = {p[1] for o in recv for p in o.path if isinstance(p, tuple) and p[0] == 'f'}
    if g.get('edge_data') in fields and type_head(call.impl_self or '') in ('std::collections::HashMap', 'hashlink::LinkedHashMap', 'std::collections::BTreeMap'):
        key = None
        if len(call.args) > 1:
            ko = body.orig_operand(call.args[1])
            parts = [set(), set()]
            ok = True
            for o in ko:
                if o.kind == 'aggr' and not o.path:
                    bb, si = o.key
                    ops = body.blocks[bb]['stmts'][si]['rv']['ops']
                    if len(ops) == 2:
                        parts[0] |= set(body.orig_operand(ctx.F.operand(ops[0])))
                        parts[1] |= set(body.orig_operand(ctx.F.operand(ops[1])))
                        continue
                ok = False
            if ok:
                key = (strip_path(parts[0]), strip_path(parts[1]))
        return AdjOp('e', name, None, key, call)
    # `mem::take(&mut node.children)` empties the set as a whole, like `drain` / `clear`
    taken = call.qname == 'std::mem::take' and call.gargs and call.gargs[0].startswith(tuple(SET_LIKE))
    if taken:
        name = 'drain'
    for enc, fname in (('c', g.get('children')), ('p', g.get('parents'))):
        if fname and fname in fields and ((call.impl_self or '').startswith(tuple(SET_LIKE)) or taken):
            base = frozenset(Origin(o.kind, o.key, tuple(p for p in o.path if not (isinstance(p, tuple) and p[0] == 'f' and p[1] == fname))) for o in recv)
            node = strip_path(_slot_key_of(body, base, g))
            key = strip_path(body.orig_operand(call.args[1])) if len(call.args) > 1 else None
            return AdjOp(enc, name, node, key, call)
    return None


def is_param(origins, idx):
    return bool(origins) and all(o.kind == 'arg' and o.key == idx for o in origins)


# ------------------------------------------------------------------------------------------------
# G1 / E1: typestate over (c, p, e) for the single-edge mutators
# ------------------------------------------------------------------------------------------------

State = namedtuple('State', 'entry c p e env ret rank')


def typestate(ctx, g, body, src_idx, dst_idx, rank_writers):
    """Explore (block, abstract state) pairs. Returns (exits, problems). exits: list of (State, bb).
    env tracks booleans produced by membership operations so correlated branches are pruned."""
    F = ctx.F
    ops = {}
    problems = []
    for bb, c in body.calls.items():
        if body.blocks[bb]['cleanup']:
            continue
        op = classify(ctx, g, body, c)
        if op is None:
            continue
        if op.enc == 'c':
            ok = is_param(op.node, src_idx) and (op.key is None or is_param(op.key, dst_idx))
        elif op.enc == 'p':
            ok = is_param(op.node, dst_idx) and (op.key is None or is_param(op.key, src_idx))
        else:
            ok = op.key is None or (is_param(op.key[0], src_idx) and is_param(op.key[1], dst_idx))
        if not ok:
            problems.append((bb, 'operation %s on the %s encoding does not address the edge (src, dst): node %s key %s' % (
                c.qname, {'c': 'children', 'p': 'parents', 'e': 'edge_data'}[op.enc], body.describe_origins(op.node or []),
                [body.describe_origins(k) for k in op.key] if isinstance(op.key, tuple) else body.describe_origins(op.key or []))))
            continue
        ops[bb] = op
    starts = [State(e, e, e, e, frozenset(), None, False) for e in (0, 1)]
    seen = set()
    work = [(0, s) for s in starts]
    exits = []
    while work:
        bb, st = work.pop()
        if (bb, st) in seen:
            continue
        seen.add((bb, st))
        blk = body.blocks[bb]
        env = dict(st.env)
        ret = st.ret
        rank = st.rank
        for s in blk['stmts']:
            if s['k'] != 'a':
                continue
            pl = F.place(s['p'])
            rv = s['rv']
            if pl[1]:
                if any(isinstance(p, tuple) and p[0] == 'f' and p[2] == g.get('rank') for p in pl[1]):
                    rank = True
                continue
            l = pl[0]
            if rv['k'] == 'aggr' and rv['ak'].get('variant') in ('Err', 'Ok', 'None', 'Some') and l != 0 and 'Result' in body.local_ty(l) + body.local_ty(0):
                # a result built in a local first (e.g. the return place of a helper that was inlined) and moved to the return place later
                v = rv['ak']['variant']
                pay = rv['ops'][0].get('k', {}).get('int') if rv['ops'] and 'k' in rv['ops'][0] else None
                env[('ret', l)] = v if pay is None else '%s(%s)' % (v, pay)
            if l == 0:
                if rv['k'] == 'aggr' and rv['ak'].get('variant') in ('Err', 'Ok', 'None', 'Some'):
                    v = rv['ak']['variant']
                    pay = rv['ops'][0].get('k', {}).get('int') if rv['ops'] and 'k' in rv['ops'][0] else None
                    ret = v if pay is None else '%s(%s)' % (v, pay)
                elif rv['k'] == 'use' and F.operand(rv['op'])[0] in ('c', 'm') and not F.operand(rv['op'])[1][1] and env.get(('ret', F.operand(rv['op'])[1][0])) is not None:
                    ret = env[('ret', F.operand(rv['op'])[1][0])]
                else:
                    ret = '?'
                continue
            if body.local_ty(l) != 'bool':
                # a tuple / struct built from known flags (e.g. the `(newly_linked, region)` a helper returns), and moves of it
                for k_ in [k_ for k_ in env if isinstance(k_, tuple) and k_[0] == l]:
                    env.pop(k_)
                if rv['k'] == 'aggr':
                    for i_, o_ in enumerate(rv['ops']):
                        oo = F.operand(o_)
                        if oo[0] in ('c', 'm') and not oo[1][1] and env.get(oo[1][0]) is not None and body.local_ty(oo[1][0]) == 'bool':
                            env[(l, i_)] = env[oo[1][0]]
                        elif oo[0] == 'k' and oo[1].get('ty') == 'bool':
                            env[(l, i_)] = oo[1].get('int') == '1'
                elif rv['k'] == 'use':
                    oo = F.operand(rv['op'])
                    if oo[0] in ('c', 'm') and not oo[1][1]:
                        for k_ in [k_ for k_ in env if isinstance(k_, tuple) and k_[0] == oo[1][0]]:
                            env[(l, k_[1])] = env[k_]
                continue
            val = None
            if rv['k'] == 'use':
                op = F.operand(rv['op'])
                if op[0] == 'k':
                    val = {'0': False, '1': True}.get(op[1].get('int'))
                elif op[0] in ('c', 'm') and not op[1][1]:
                    val = env.get(op[1][0])
                elif op[0] in ('c', 'm') and len(op[1][1]) == 1 and isinstance(op[1][1][0], tuple) and op[1][1][0][0] == 'f':
                    val = env.get((op[1][0], op[1][1][0][1]))
            elif rv['k'] == 'un' and rv['uop'] == 'Not':
                op = F.operand(rv['a'])
                if op[0] in ('c', 'm') and not op[1][1] and env.get(op[1][0]) is not None:
                    val = not env[op[1][0]]
            if val is None:
                env.pop(l, None)
            else:
                env[l] = val
        t = blk['term']
        c_, p_, e_ = st.c, st.p, st.e
        if t['k'] == 'call':
            call = body.calls[bb]
            if call.target is None:
                continue
            dest = call.dest
            res = None
            op = ops.get(bb)
            if op is not None:
                cur = {'c': c_, 'p': p_, 'e': e_}[op.enc]
                n = op.op
                if n in ('insert', 'replace', 'get_or_insert'):
                    res = (cur == 0) if op.enc != 'e' else None
                    cur = 1
                elif n in ('remove', 'take', 'swap_remove', 'shift_remove', 'remove_entry'):
                    res = (cur == 1) if op.enc != 'e' else None
                    cur = 0
                elif n in ('contains', 'contains_key'):
                    res = cur == 1
                elif n in ('clear', 'drain'):
                    cur = 0
                elif n in ('get', 'get_mut', 'iter', 'len', 'is_empty', 'entry'):
                    pass
                else:
                    problems.append((bb, 'unmodelled operation %s on an edge encoding' % call.qname))
                if op.enc == 'c':
                    c_ = cur
                elif op.enc == 'p':
                    p_ = cur
                else:
                    e_ = cur
            else:
                cb = F.callee_body(call)
                if cb is not None and cb.id in rank_writers:
                    rank = True
                # an existing edge implies that both of its nodes exist
                if call.name == 'contains_key' and st.entry == 1 and call.args and any(('f', g['node_info']) in o.path for o in body.orig_operand(call.args[0])):
                    ko = strip_path(body.orig_operand(call.args[1]))
                    if is_param(ko, src_idx) or is_param(ko, dst_idx):
                        res = True
            if not dest[1]:
                if dest[0] != 0 and call.qname == 'std::ops::FromResidual::from_residual' and 'Result' in body.local_ty(dest[0]):
                    env[('ret', dest[0])] = 'Err'
                if dest[0] == 0:
                    # `x?` returning early: from_residual builds the Err (or None) that is returned
                    ret = 'Err' if call.qname == 'std::ops::FromResidual::from_residual' and 'Result' in body.local_ty(0) else '?call'
                elif body.local_ty(dest[0]) == 'bool':
                    if res is None:
                        env.pop(dest[0], None)
                    else:
                        env[dest[0]] = res
            ns = State(st.entry, c_, p_, e_, frozenset(env.items()), ret, rank)
            work.append((call.target, ns))
            continue
        ns = State(st.entry, c_, p_, e_, frozenset(env.items()), ret, rank)
        if t['k'] == 'return':
            exits.append((ns, bb))
        elif t['k'] == 'switch':
            op = F.operand(t['op'])
            known = None
            if op[0] in ('c', 'm') and not op[1][1] and body.local_ty(op[1][0]) == 'bool':
                known = env.get(op[1][0])
            for tg, lab in body.succ[bb]:
                v = lab[2]
                if known is not None:
                    listed = [x[1][2] for x in body.succ[bb] if x[1][2] != 'otherwise']
                    iv = 1 if known else 0
                    take = (v == iv) if v != 'otherwise' else (iv not in listed)
                    if not take:
                        continue
                g_ = body.guard_of(bb, [x[1] for x in body.succ[bb]].index(lab))
                if g_ is not None and g_.kind == 'enum' and g_.variants() is not None and len(g_.variants()) == 0:
                    continue
                # an existing edge implies that both of its nodes exist: `node_info.get(src)` / `get_mut(dst)` is not None
                if st.entry == 1 and g_ is not None and g_.kind == 'enum' and g_.variants() == frozenset(['None']):
                    scs = [c for c in g_.subject_calls() if c.name in ('get', 'get_mut') and len(c.args) > 1
                           and any(('f', g['node_info']) in o.path for o in body.orig_operand(c.args[0]))]
                    if scs and all(is_param(strip_path(body.orig_operand(c.args[1])), src_idx) or is_param(strip_path(body.orig_operand(c.args[1])), dst_idx) for c in scs):
                        continue
                work.append((tg, ns))
        else:
            for tg, _ in body.succ[bb]:
                work.append((tg, ns))
    return exits, problems


def rule_graph_sync(ctx):
    R, F = ctx.R, ctx.F
    g = resolve_graph(ctx)
    ctx.g = g
    P = ('C10', 'C11')
    if not g or not g.get('children') or not g.get('parents') or not g.get('edge_data'):
        R.missing('GRAPH', 'encodings', 'children / parents / edge_data not resolved', props=P + ('C02', 'C07', 'C16'))
        return
    rank_writers = {b.id for b in graph_bodies(ctx) if any(any(isinstance(p, tuple) and p[0] == 'f' and p[2] == g.get('rank') for p in pl[1]) for (_, _, pl, _, _) in b.stores)}
    ctx.rank_writers = rank_writers
    ae = F.body_by_path(G + 'add_edge')
    re_ = F.body_by_path(G + 'remove_edge')
    if ae is None or re_ is None:
        R.missing('GRAPH', 'add_edge/remove_edge', 'public mutators not found', props=P)
        return
    # ---- add_edge
    exits, problems = typestate(ctx, g, ae, 2, 3, rank_writers)
    for bb, msg in problems:
        R.ob('G1-addr', ae.path + '#bb%d' % bb if False else ae.path + '#' + msg[:60], False, msg, ctx.where(ae, bb), props=P)
    kinds = set()
    bad = []
    for st, bb in exits:
        kinds.add(st.ret)
        sync = st.c == st.p == st.e
        if st.ret == 'Err':
            if not (sync and st.c == st.entry):
                bad.append(('a rejected insertion (Err) leaves the edge encodings changed: entry %d -> children=%d parents=%d edge_data=%d' % (st.entry, st.c, st.p, st.e), bb, ('C10',)))
            if st.rank:
                bad.append(('a rejected insertion (Err) can be preceded by a write of topological ranks', bb, ('C10',)))
        elif st.ret == 'Ok(0)':
            if not (sync and st.c == st.entry):
                bad.append(('add_edge returns Ok(false) with the encodings changed/out of sync: entry %d -> (%d,%d,%d)' % (st.entry, st.c, st.p, st.e), bb, P))
            if st.entry == 0:
                bad.append(('add_edge can return Ok(false) (edge existed) although the edge was absent', bb, ('C11',)))
        elif st.ret == 'Ok(1)':
            if not (sync and st.c == 1):
                bad.append(('add_edge returns Ok(true) without all three encodings holding the edge: (%d,%d,%d)' % (st.c, st.p, st.e), bb, P))
            if st.entry == 1:
                bad.append(('add_edge can return Ok(true) (new edge) although the edge existed: its data would be overwritten / order changed', bb, ('C11', 'C08')))
        else:
            bad.append(('unrecognised exit value %s' % st.ret, bb, P))
    R.ob('G1-typestate', ae.path, not bad and bool(exits), 'on every exit of add_edge the three encodings agree; Err and Ok(false) leave them as at entry and write no rank; Ok(true) only for a new edge (%d abstract exits)' % len(exits)
         if not bad and exits else '; '.join(sorted({b[0] for b in bad}))[:900], ctx.where(ae), props=('C10', 'C11', 'C08', 'C07', 'C19'))
    R.ob('G1-exits', ae.path, {'Err', 'Ok(0)', 'Ok(1)'} <= kinds, 'add_edge has Err, Ok(false) and Ok(true) exits' if {'Err', 'Ok(0)', 'Ok(1)'} <= kinds else 'exit kinds seen: %s' % sorted(map(str, kinds)),
         ctx.where(ae), props=P)
    # E3: edge data inserted only on the new-edge path, with the data parameter
    for bb, c in ae.calls.items():
        op = classify(ctx, g, ae, c)
        if op and op.enc == 'e' and op.op == 'insert':
            good = is_param(ae.orig_operand(c.args[2]), 4)
            R.ob('E3-data', ae.path, good, 'the data stored for a new edge is the data given at that insertion' if good else 'edge data stored: %s' % ae.describe_origins(ae.orig_operand(c.args[2])), ctx.where(ae, bb), props=('C11', 'C08'))
    # ---- remove_edge
    exits, problems = typestate(ctx, g, re_, 2, 3, rank_writers)
    bad = [msg for _, msg in problems]
    for st, bb in exits:
        if not (st.c == st.p == st.e):
            bad.append('remove_edge can return with the encodings out of sync: entry %d -> children=%d parents=%d edge_data=%d' % (st.entry, st.c, st.p, st.e))
        elif st.entry == 1 and st.c == 1 and st.ret != 'None':
            bad.append('remove_edge reports removal but keeps the edge')
        elif st.entry == 1 and st.c == 1:
            bad.append('remove_edge can leave an existing edge in place')
        if st.rank:
            bad.append('remove_edge writes topological ranks')
    R.ob('E1-remove-edge', re_.path, not bad and bool(exits), 'remove_edge removes the edge from all three encodings (or none) on every exit' if not bad and exits else '; '.join(sorted(set(bad)))[:600],
         ctx.where(re_), props=('C11', 'C10'))
    # ---- bulk mutators
    for name, near in (('remove_outgoing_edges_of_node', 'children'),):
        b = F.body_by_path(G + name)
        if b is None:
            R.missing('E1-bulk', name, 'mutator not found', props=('C11',))
            continue
        _bulk(ctx, g, b, [(near, 2)], clear_near=True)
    b = F.body_by_path(G + 'remove_node')
    if b is None:
        R.missing('E1-bulk', 'remove_node', 'mutator not found', props=('C11',))
    else:
        _bulk(ctx, g, b, [('children', 2), ('parents', 2)], clear_near=False)


def _bulk(ctx, g, b, sides, clear_near):
    """Loops over the adjacency of the operated node: each iteration removes the mirror entry at the
    neighbour and the edge_data entry with the right tuple orientation."""
    R, F = ctx.R, ctx.F
    inf = ctx.infeasible(b)
    found = 0
    for near, pidx in sides:
        nf = g[near]
        far = 'parents' if near == 'children' else 'children'
        ff = g[far]
        loops = []
        for nx in b.find_calls(lambda c: c.qname == 'std::iter::Iterator::next'):
            recv = b.orig_operand(nx.args[0])
            anc = ancestors(b, recv)
            direct = any(('f', nf) in o.path for o in recv)
            via = any(any(('f', nf) in o.path for o in b.orig_operand(c.args[0])) for c in anc.values() if c.args and c.args[0][0] in ('c', 'm'))
            if direct or via:
                loops.append(nx)
        if len(loops) != 1:
            R.undecided('E1-bulk-loop', b.path + '#' + near, 'expected one loop over the %s of the operated node, found %d' % (near, len(loops)), ctx.where(b), props=('C11',))
            continue
        found += 1
        nx = loops[0]
        some_e = [n for n, gd in guard_edges_on_call(b, nx) if gd.variants() == frozenset(['Some'])]
        ops = [(c, classify(ctx, g, b, c)) for c in b.calls.values() if not b.blocks[c.bb]['cleanup']]
        ops = [(c, o) for c, o in ops if o is not None]

        def item(os_):
            return bool(os_) and all(o.kind == 'call' and o.key == nx.bb for o in os_)
        mirror = [c for c, o in ops if o.enc == far[0] and o.op in ('remove', 'take') and item(o.node) and is_param(o.key, pidx)]
        if near == 'children':
            ed = [c for c, o in ops if o.enc == 'e' and o.op in ('remove', 'remove_entry') and o.key and is_param(o.key[0], pidx) and item(o.key[1])]
        else:
            ed = [c for c, o in ops if o.enc == 'e' and o.op in ('remove', 'remove_entry') and o.key and item(o.key[0]) and is_param(o.key[1], pidx)]
        # the mirror removal may be skipped only when the neighbour record does not exist (get_mut is None)
        skip_ok = set()
        for (bb, k), gd in b.guards.items():
            if gd.kind == 'enum' and gd.variants() == frozenset(['None']) and any(c.name in ('get_mut', 'get') for c in gd.subject_calls()):
                skip_ok.add(('e', bb, k))
        for what, calls, extra_avoid, props in (('the %s entry of the neighbour' % far, mirror, skip_ok, ('C11',)), ('the edge_data entry (%s)' % ('node, child' if near == 'children' else 'parent, node'), ed, set(), ('C11',))):
            cb = {c.bb for c in calls}
            bad = False
            for e in some_e:
                seen = b.reach([e], avoid=ctx.both(inf, lambda n: n in cb or n in extra_avoid))
                if nx.bb in seen or any(r in seen for r in b.returns()):
                    bad = True
            R.ob('E1-bulk', b.path + '#' + near + '/' + what.split(' ')[1], not bad and bool(calls) and bool(some_e), 'for every %s edge of the removed side, %s is removed in the same iteration' % (near, what) if not bad and calls
                 else 'an iteration over %s can finish without removing %s (or removes it with the wrong key orientation)' % (near, what), ctx.where(b, nx.bb), props=props)
        if clear_near:
            clr = [c for c, o in ops if o.enc == near[0] and o.op in ('clear', 'drain') and is_param(o.node, pidx)]
            seen = b.reach([0], avoid=ctx.both(inf, lambda n: n in {c.bb for c in clr}))
            # exits that skip the clearing are only the early `node missing` ones (before anything was touched)
            touched = {c.bb for c, o in ops if o.op in ('remove', 'take', 'clear', 'drain')}
            bad = [bb for bb in touched if bb in seen]
            R.ob('E1-bulk-near', b.path, bool(clr) and not bad, 'the %s set of the node itself is emptied as a whole before the mirror entries are removed' % near if clr and not bad
                 else 'the %s set of the node is not emptied' % near, ctx.where(b), props=('C11', 'C08'))
    R.floor('E1-bulk', 'adjacency loops in %s' % b.name, found, len(sides), props=('C11',))
    # remove_node: the record itself is removed
    if b.name == 'remove_node':
        rm = [c for c in b.find_calls(lambda c: c.name == 'remove' and any(('f', g['node_info']) in o.path for o in b.orig_operand(c.args[0])))]
        good = len(rm) == 1 and is_param(strip_path(b.orig_operand(rm[0].args[1])), 2)
        R.ob('E1-remove-node', b.path, good, 'the node record (with both adjacency sets) is removed' if good else 'node record not removed', ctx.where(b), props=('C11', 'C10'))


# ------------------------------------------------------------------------------------------------
# ORD — insertion-ordered adjacency
# ------------------------------------------------------------------------------------------------

def rule_ord(ctx):
    R, F = ctx.R, ctx.F
    g = getattr(ctx, 'g', None) or resolve_graph(ctx)
    P = ('C02', 'C11', 'C16')
    if not g or not g.get('children'):
        R.missing('ORD', 'adjacency', 'adjacency fields not resolved', props=P)
        return
    for side in ('children', 'parents'):
        ty = g['adj_fields'][g[side]]
        good = type_head(ty) in ('hashlink::LinkedHashSet', 'hashlink::LinkedHashMap', 'std::vec::Vec')
        R.ob('ORD-1', 'NodeInfo.' + g[side], good, 'adjacency is kept in an insertion-ordered container (%s)' % type_head(ty) if good
             else 'adjacency container %s does not iterate in insertion order' % type_head(ty), 'graph/src/lib.rs ' + (g['noderec'] or ''), props=P)
    q = getattr(ctx.roles, 'deps_from', None)
    if q is not None:
        ty = q.local_ty(0)
        good = 'hashlink::linked_hash_set::Iter' in ty or 'std::slice::Iter' in ty
        R.ob('ORD-1-iter', q.path, good, 'the dependency iterator handed to validation walks the insertion-ordered adjacency' if good else 'dependencies-from iterates %s' % ty[:200], ctx.where(q), props=('C02', 'C16'))
    # ORD-2: re-linking operations only on elements known to be absent
    n = 0
    for b in graph_bodies(ctx):
        for c in b.find_calls(lambda c: c.qname in REORDERING):
            op = classify(ctx, g, b, c)
            if op is None or op.enc not in ('c', 'p'):
                continue
            n += 1
            req = b.edges_required_for(c.bb)
            absent = False
            for gd in req:
                if gd.kind != 'bool':
                    continue
                for sc in gd.subject_calls():
                    so = classify(ctx, g, b, sc)
                    if so is None:
                        if sc.qname == G + 'contains_edge' and gd.truth() is False:
                            absent = True
                        continue
                    same_edge = False
                    if so.enc in ('c', 'p') and op.enc == so.enc:
                        same_edge = so.node == op.node and so.key == op.key
                    elif so.enc in ('c', 'p'):
                        same_edge = so.node == op.key and so.key == op.node
                    elif so.enc == 'e' and so.key:
                        a, d = (op.node, op.key) if op.enc == 'c' else (op.key, op.node)
                        same_edge = so.key[0] == a and so.key[1] == d
                    if not same_edge:
                        continue
                    if so.op in ('contains', 'contains_key') and gd.truth() is False:
                        absent = True
                    if so.op == 'insert' and so.enc != 'e' and gd.truth() is True:
                        absent = True  # the mirror insert reported "was absent"
            R.ob('ORD-2', b.path + '#' + {'c': 'children', 'p': 'parents'}[op.enc] + '.' + c.name, absent,
                 'a re-linking insert into the adjacency is reached only when the edge is known to be absent (first-insertion order is kept)' if absent
                 else '%s on the %s set can be applied to an edge that already exists: hashlink moves an existing element to the back, so iteration order becomes last-access order' % (c.qname, {'c': 'children', 'p': 'parents'}[op.enc]),
                 ctx.where(b, c.bb), props=P + ('C08',))
    R.floor('ORD-2', 're-linking operations on adjacency sets', n, 2, props=P)
    # ORD-3-chain: nothing between the adjacency set and the consumer may change the order
    ORDER_OK = {'borrow', 'get', 'into_iter', 'flat_map', 'map', 'iter', 'unwrap', 'contains_node', 'contains_key', 'call_once', 'call_mut', 'call', 'expect',
                'new_debug', 'new', 'panic_fmt', 'filter_map', 'cloned', 'copied', 'as_ref', 'get_outgoing_edge_data', 'get_outgoing_edges'}
    chain_fns = [F.body_by_path(G + 'get_outgoing_edge_data'), F.body_by_path(G + 'get_outgoing_edges'), getattr(ctx.roles, 'deps_from', None)]
    for b in [x for x in chain_fns if x is not None]:
        bad = sorted({c.name for x in F.with_closures(b) for c in x.calls.values() if c.name not in ORDER_OK and not x.blocks[c.bb]['cleanup']
                      and F.accessor_summary(c) is None})  # a field accessor (`node.as_node()`) is not an adaptor
        R.ob('ORD-3-chain', b.path, not bad, 'the edges are handed out in adjacency order (no re-ordering adaptor in the chain)' if not bad
             else 'the iterator chain applies %s: dependencies may be validated out of creation order' % bad, ctx.where(b), props=('C02', 'C11', 'C16'))
    # ORD-3: the getters used for validation order read `children`
    for name in ('get_outgoing_edge_data', 'get_outgoing_edges'):
        b = F.body_by_path(G + name)
        used = set()
        if b is not None:
            for x in F.with_closures(b):
                used |= {nn for a, nn in fields_used(F, x) if a == g['noderec'] and nn in g['adj_fields']}
        good = used == {g['children']}
        R.ob('ORD-3', G + name, good, '%s walks the children set' % name if good else '%s walks %s' % (name, sorted(used)), ctx.where(b) if b else '', props=('C02', 'C11'))


# ------------------------------------------------------------------------------------------------
# E4 / E7: sibling agreement of getters, key orientation
# ------------------------------------------------------------------------------------------------

def rule_graph_getters(ctx):
    R, F = ctx.R, ctx.F
    g = getattr(ctx, 'g', None) or resolve_graph(ctx)
    if not g or not g.get('children'):
        R.missing('E4', 'adjacency', 'not resolved', props=('C11',))
        return
    n = 0
    for direction, fld, other in (('outgoing', g['children'], g['parents']), ('incoming', g['parents'], g['children'])):
        for suffix in ('edges', 'edge_nodes', 'edge_data', 'edge_node_data'):
            name = 'get_%s_%s' % (direction, suffix)
            b = F.body_by_path(G + name)
            if b is None:
                continue
            n += 1
            used = set()
            for x in F.with_closures(b):
                used |= {nn for a, nn in fields_used(F, x) if a == g['noderec'] and nn in g['adj_fields']}
            good = used == {fld}
            R.ob('E4-side', G + name, good, '%s reads the %s set' % (name, fld) if good else '%s reads %s' % (name, sorted(used)), ctx.where(b), props=('C11', 'C05', 'C03'))
            # node whose adjacency is read = the parameter
            for c in b.find_calls(lambda c: c.name in ('get', 'index') and any(('f', g['node_info']) in o.path for o in b.orig_operand(c.args[0]))):
                good = is_param(strip_path(b.orig_operand(c.args[1])), 2)
                R.ob('E4-node', G + name, good, 'adjacency of the queried node is read' if good else 'adjacency of another node is read', ctx.where(b, c.bb), props=('C11',))
            # key orientation in closures that look up edge_data
            for cb in F.closures_of(b):
                for c in cb.calls.values():
                    op = classify(ctx, g, cb, c)
                    if op is None or op.enc != 'e' or not op.key:
                        continue
                    k0, k1 = op.key
                    cap0 = bool(k0) and all(o.kind == 'arg' and o.key == 1 for o in k0)
                    cap1 = bool(k1) and all(o.kind == 'arg' and o.key == 1 for o in k1)
                    it0 = bool(k0) and all(o.kind == 'arg' and o.key == 2 for o in k0)
                    it1 = bool(k1) and all(o.kind == 'arg' and o.key == 2 for o in k1)
                    good = (cap0 and it1) if direction == 'outgoing' else (it0 and cap1)
                    R.ob('E4-key', G + name, good, 'edge data is looked up under (%s)' % ('node, child' if direction == 'outgoing' else 'parent, node') if good
                         else 'edge data is looked up with the tuple in the wrong orientation', ctx.where(cb, c.bb), props=('C11', 'C08'))
    R.floor('E4', 'adjacency getters', n, 8, props=('C11',))
    # E7
    for name in ('contains_edge', 'get_edge_data', 'get_edge_data_mut'):
        b = F.body_by_path(G + name)
        if b is None:
            R.missing('E7', name, 'not found', props=('C11',))
            continue
        ops = [classify(ctx, g, b, c) for c in b.calls.values()]
        ops = [o for o in ops if o is not None and o.enc == 'e' and o.key]
        good = len(ops) == 1 and is_param(ops[0].key[0], 2) and is_param(ops[0].key[1], 3)
        R.ob('E7-key', G + name, good, '%s(src, dst) looks up (src, dst)' % name if good else '%s does not look up (src, dst) in parameter order' % name, ctx.where(b), props=('C11', 'C08'))
    b = F.body_by_path(G + 'topo_cmp')
    if b is not None:
        cs = b.find_calls(lambda c: c.qname == 'std::cmp::Ord::cmp')
        good = len(cs) == 1
        if good:
            sides = []
            for a in cs[0].args:
                os_ = b.orig_operand(a)
                sides.append((strip_path(_slot_key_of(b, frozenset(Origin(o.kind, o.key, ()) for o in os_), g)), all(('f', g['rank']) in o.path for o in os_)))
            good = is_param(sides[0][0], 2) and is_param(sides[1][0], 3) and sides[0][1] and sides[1][1] and ctx.base_call_bbs(b.orig_local(0)) == {cs[0].bb}
        R.ob('E7-topo-cmp', G + 'topo_cmp', good, 'topo_cmp(a, b) is rank(a).cmp(rank(b))' if good else 'topo_cmp does not compare rank(a) with rank(b) in that order', ctx.where(b), props=('C11', 'C04'))


# ------------------------------------------------------------------------------------------------
# E5 scratch space, E6 check-then-mark, reachability query shape
# ------------------------------------------------------------------------------------------------

def _through_field(body, operand):
    """the operand is (a reference to) a field of some struct reached from a parameter / taken value - not a plain local"""
    return any(any(isinstance(p, tuple) and p[0] == 'f' for p in o.path) for o in body.orig_operand(operand))


def _recv_head(body, call):
    a = call.args[0]
    if a[0] not in ('c', 'm'):
        return ''
    t = body.local_ty(a[1][0])
    while t.startswith('&'):
        t = t[1:].lstrip()
        if t.startswith('mut '):
            t = t[4:]
    return type_head(t)


def rule_graph_search(ctx):
    R, F = ctx.R, ctx.F
    g = getattr(ctx, 'g', None) or resolve_graph(ctx)
    if not g:
        R.missing('E5', 'graph', 'not resolved', props=('C11',))
        return
    b = F.body_by_path(G + 'contains_transitive_edge')
    if b is None:
        R.missing('E5', 'contains_transitive_edge', 'not found', props=('C11', 'C05'))
        return
    inf = ctx.infeasible(b)
    n_take = 0
    for tb in graph_bodies(ctx):
        takes = tb.find_calls(lambda c: c.qname in ('std::cell::Cell::take', 'std::cell::Cell::replace', 'std::mem::take') and any(('f', g.get('scratch')) in o.path for o in tb.orig_operand(c.args[0])))
        for t in takes:
            n_take += 1
            tinf = ctx.infeasible(tb)
            uses = [c for c in tb.calls.values() if not tb.blocks[c.bb]['cleanup'] and any(a[0] in ('c', 'm') and t.bb in ctx.base_call_bbs(tb.orig_operand(a)) for a in c.args)]
            def _clears_fields(c):
                """fields of the scratch value that call `c` empties: a std `clear` on a field, or a local helper (of any name) whose
                body clears fields of its receiver on every path"""
                cb = F.callee_body(c)
                if cb is None:
                    return {p[1] for o in tb.orig_operand(c.args[0]) for p in o.path if isinstance(p, tuple)} if c.name == 'clear' else None
                fs = set()
                for x in cb.calls.values():
                    if x.name != 'clear' or F.callee_body(x) is not None or cb.blocks[x.bb]['cleanup'] or not x.args:
                        continue
                    seen = cb.reach([0], avoid=lambda n, bb=x.bb: n == bb)
                    if any(r in seen for r in cb.returns()):
                        continue  # not on every path
                    fs |= {p[1] for o in cb.orig_operand(x.args[0]) if o.kind == 'arg' and o.key == 1 for p in o.path if isinstance(p, tuple)}
                return fs or None
            clear_map = {c.bb: _clears_fields(c) for c in uses}
            clears = [c for c in uses if clear_map[c.bb]]
            full = set()
            for c in clears:
                full |= clear_map[c.bb]
            others = [c for c in uses if not clear_map[c.bb] and c.qname not in ('std::cell::Cell::set', 'std::mem::drop')]
            used_fields = {p[1] for c in others for a in c.args if a[0] in ('c', 'm') for o in tb.orig_operand(a) if o.kind == 'call' and o.key == t.bb for p in o.path if isinstance(p, tuple)}
            bad = None
            for u in others:
                if tb.must_before(u.bb, ctx.both(tinf, lambda n: n in {c.bb for c in clears})) is not None:
                    bad = u
            good = bool(clears) and bad is None and (used_fields <= full or (g.get('scratch_fields') and g['scratch_fields'] <= full))
            R.ob('E5-scratch', tb.path, good, 'the reused scratch space is cleared (every part that is used: %s) before its first use' % sorted(used_fields) if good
                 else 'the reused scratch space is used (%s) before it is cleared, or a used part (%s) is never cleared: stale entries from the previous query change answers'
                 % (bad.qname if bad else 'n/a', sorted(used_fields - full)), ctx.where(tb, t.bb), props=('C11', 'C05', 'C07', 'C10'))
    if n_take == 0:
        R.ob('E5-scratch', b.path, True, 'no reused scratch space (fresh allocations per query)', ctx.where(b), props=('C11', 'C05'))
    # query shape: starts at src; true only via children(popped).contains(dst)
    pushes = b.find_calls(lambda c: c.qname == 'std::vec::Vec::push')
    good = any(is_param(strip_path(b.orig_operand(c.args[1])), 2) for c in pushes)
    R.ob('E5-start', b.path, good, 'the search starts at src' if good else 'the search does not start at its src parameter', ctx.where(b), props=('C11', 'C05'))
    # blocks that make the answer `true`: a constant true stored in the return place, or in a flag local that is later returned
    true_defs, flags, work = [], set(), [0]
    while work:
        l = work.pop()
        if l in flags:
            continue
        flags.add(l)
        for d in b.defs.get(l, []):
            if d[0] == 'stmt' and d[3]['k'] == 'use':
                o = d[3]['op']
                if 'k' in o and o['k'].get('int') == '1':
                    true_defs.append(d[1])
                elif ('m' in o or 'c' in o) and not (o.get('m') or o.get('c'))['p']:
                    work.append((o.get('m') or o.get('c'))['l'])
    hit_edges = set()
    for (bb, k), gd in b.guards.items():
        if gd.kind == 'bool' and gd.truth() is True:
            for sc in gd.subject_calls():
                op = classify(ctx, g, b, sc)
                if op and op.enc == 'c' and op.op == 'contains' and is_param(op.key, 3) and all(o.kind == 'call' and b.calls[o.key].name == 'pop' for o in op.node):
                    hit_edges.add(('e', bb, k))
    seen = b.reach([0], avoid=ctx.both(inf, lambda n: n in hit_edges))
    bad = [x for x in true_defs if x in seen]
    R.ob('E5-hit', b.path, bool(hit_edges) and bool(true_defs) and not bad, 'the query answers true exactly when dst is found among the children of a node reached from src' if hit_edges and true_defs and not bad
         else 'the query can answer true without finding dst among the children of a reached node (or tests the wrong set/key)', ctx.where(b), props=('C11', 'C05'))
    ext = b.find_calls(lambda c: c.name in ('extend', 'push') and c.bb not in {p.bb for p in pushes if is_param(strip_path(b.orig_operand(p.args[1])), 2)})
    good = False
    for c in ext:
        anc = ancestors(b, b.orig_operand(c.args[1])) if len(c.args) > 1 else {}
        for x in list(anc.values()):
            op = classify(ctx, g, b, x)
            if op and op.enc == 'c' and all(o.kind == 'call' and b.calls[o.key].name == 'pop' for o in op.node):
                good = True
    R.ob('E5-expand', b.path, good, 'the search continues with the children of the node it popped' if good else 'the search does not expand the children of the popped node', ctx.where(b), props=('C11', 'C05'))
    # E6 check-then-mark
    n = 0
    for body in graph_bodies(ctx):
        if body.name not in ('contains_transitive_edge', 'next'):
            continue
        chk = [c for c in body.find_calls(lambda c: c.qname == 'std::collections::HashSet::contains' and _through_field(body, c.args[0]))]
        mark = [c for c in body.find_calls(lambda c: c.qname == 'std::collections::HashSet::insert' and _through_field(body, c.args[0]))]
        if not chk and not mark:
            continue
        n += 1
        inf = ctx.infeasible(body)
        gates = set()
        for (bb, k), gd in body.guards.items():
            if gd.kind == 'bool':
                for sc in gd.subject_calls():
                    if sc in chk and gd.truth() is False:
                        gates.add(('e', bb, k))
                    if sc in mark and gd.truth() is True:
                        gates.add(('e', bb, k))
        # expansion / yield sites
        sites = []
        for c in body.calls.values():
            if c.name in ('extend', 'push') and c.args and _through_field(body, c.args[0]) and _recv_head(body, c) in ('std::vec::Vec', 'std::collections::BinaryHeap') and not body.blocks[c.bb]['cleanup']:
                sites.append(c.bb)
        for d in body.defs.get(0, []):
            if d[0] == 'stmt' and d[3]['k'] == 'aggr' and d[3]['ak'].get('variant') == 'Some':
                sites.append(d[1])
        pops = [c.bb for c in body.find_calls(lambda c: c.name == 'pop')]
        bad = False
        for p in pops:
            seen = body.reach(body.xsucc(p), avoid=ctx.both(inf, lambda n_: n_ in gates), stop=lambda n_: n_ in pops)
            if any(s in seen for s in sites):
                bad = True
        mb = {c.bb for c in mark}
        for e in gates:
            gd = body.guard_of(e[1], e[2])
            if any(sc in mark for sc in gd.subject_calls()):
                continue
            seen = body.reach([e], avoid=ctx.both(inf, lambda n_: n_ in mb), stop=lambda n_: n_ in pops)
            if any(s in seen for s in sites):
                bad = True
        same = all(body.orig_operand(c.args[1]) and strip_path(body.orig_operand(c.args[1])) == strip_path(body.orig_operand(m.args[1])) for c in chk for m in mark) if chk and mark else True
        good = bool(gates) and bool(sites) and bool(pops) and not bad and same
        R.ob('E6-check-then-mark', body.path, good, 'a popped node is expanded / yielded only if it was not visited, and is marked visited first (each reachable node once)' if good
             else 'a node can be expanded or yielded without the visited test, or without being marked (duplicates / missing nodes)', ctx.where(body), props=('C11', 'C05'))
    R.floor('E6', 'searches with a visited set', n, 3, props=('C11',))
    # the descendant iterators start from the children of the given node and walk children only
    for name in ('descendants', 'descendants_unsorted'):
        db = F.body_by_path(G + name)
        if db is None:
            R.missing('E6-init', name, 'not found', props=('C11',))
            continue
        used = set()
        for x in F.with_closures(db):
            used |= {nn for a, nn in fields_used(F, x) if a == g['noderec'] and nn in g['adj_fields']}
        idx = [c for c in db.calls.values() if c.name in ('index', 'get') and any(('f', g['node_info']) in o.path for o in db.orig_operand(c.args[0]))]
        from_param = bool(idx) and all(is_param(strip_path(db.orig_operand(c.args[1])), 2) for c in idx if not any(x.kind == 'Closure' for x in [db]))
        good = used == {g['children']} and from_param
        R.ob('E6-init', G + name, good, '%s starts from the children of the given node' % name if good else '%s starts from %s of %s' % (name, sorted(used), 'the given node' if from_param else 'another node'), ctx.where(db), props=('C11',))
    for body in graph_bodies(ctx):
        if body.name == 'next' and body.impl_self and 'Descendants' in body.impl_self:
            used = {nn for a, nn in fields_used(F, body) if a == g['noderec'] and nn in g['adj_fields']}
            R.ob('E6-walk', body.path, used == {g['children']}, 'the iterator expands children' if used == {g['children']} else 'the iterator expands %s' % sorted(used), ctx.where(body), props=('C11',))
    # sorted descendants: min-heap through Reverse(rank of the pushed node)
    n = 0
    for body in graph_bodies(ctx):
        for l, ds in body.defs.items():
            for d in ds:
                if d[0] == 'stmt' and d[3]['k'] == 'aggr' and d[3]['ak'].get('tuple') and 'std::cmp::Reverse' in body.local_ty(l) and len(d[3]['ops']) == 2:
                    n += 1
                    o0 = body.orig_operand(F.operand(d[3]['ops'][0]))
                    o1 = body.orig_operand(F.operand(d[3]['ops'][1]))
                    rev = all(o.kind == 'aggr' for o in o0) and bool(o0)
                    rank_of_same = False
                    if rev:
                        for o in o0:
                            bb, si = o.key
                            inner = body.orig_operand(F.operand(body.blocks[bb]['stmts'][si]['rv']['ops'][0]))
                            if all(('f', g['rank']) in x.path for x in inner) and inner:
                                node = strip_path(_slot_key_of(body, frozenset(Origin(x.kind, x.key, ()) for x in inner), g))
                                if node == strip_path(o1):
                                    rank_of_same = True
                    R.ob('E6-sorted-heap', body.path, rev and rank_of_same, 'heap entries are (Reverse(rank of n), n): ascending topological order' if rev and rank_of_same
                         else 'heap entry is not keyed by Reverse(rank) of the node it carries', ctx.where(body, d[1]), props=('C11',))
    R.floor('E6-sorted-heap', 'heap entry constructions', n, 2, props=('C11',))


# ------------------------------------------------------------------------------------------------
# G3 / G4: who may write ranks, counter pairing, permutation
# ------------------------------------------------------------------------------------------------

def _closure_of(body, F, operand):
    """the closure body an operand holds (a closure aggregate built in `body`), or None"""
    for o in body.orig_operand(operand):
        if o.kind == 'aggr':
            cid = body.blocks[o.key[0]]['stmts'][o.key[1]]['rv']['ak'].get('closure')
            if cid in F.bodies:
                return F.bodies[cid]
    return None


def rule_graph_rank(ctx):
    R, F = ctx.R, ctx.F
    g = getattr(ctx, 'g', None) or resolve_graph(ctx)
    if not g or not g.get('rank'):
        R.missing('G3', 'rank', 'rank field not resolved', props=('C10',))
        return
    rank, last = g['rank'], g.get('last_rank')
    writers = {}
    lastw = {}
    for b in graph_bodies(ctx):
        for (bb, si, pl, rv, ln) in b.stores:
            names = [p[2] for p in pl[1] if isinstance(p, tuple) and p[0] == 'f']
            adts = [strip_generics(b.fix(p[3])) for p in pl[1] if isinstance(p, tuple) and p[0] == 'f']
            if rank in names and g['noderec'] in adts:
                writers.setdefault(b.path, []).append((b, bb, si, rv))
            if last and last in names and g['dag'] in adts:
                lastw.setdefault(b.path, []).append((b, bb, si, rv))
    allowed = {G + 'remove_node', G + 'reorder_nodes'}
    reorder = None
    for p, ws in writers.items():
        b = ws[0][0]
        is_reorder = b.name not in MUTATORS and not b.path.startswith(G + 'get_') and any(c.qname.startswith('core::slice::sort') for c in b.calls.values())
        if is_reorder:
            reorder = b
        # a closure handed to an iterator adaptor inside node removal / the reordering step belongs to it
        owner = F.bodies.get(b.root) if getattr(b, 'root', None) else None
        good = p == G + 'remove_node' or is_reorder or (b.kind == 'Closure' and owner is not None and owner.path == G + 'remove_node')
        R.ob('G3-who-writes-rank', p, good, 'ranks are written only by node removal (compaction) and by the reordering step' if good else '%s writes topological ranks' % p, ctx.where(b, ws[0][1]), props=('C10',))
    R.floor('G3', 'rank writers', len(writers), 2, props=('C10',))
    for p, ws in lastw.items():
        b = ws[0][0]
        good = b.name in ('add_node', 'remove_node')
        R.ob('G3-who-writes-counter', p, good, 'the rank counter is written only by add_node / remove_node' if good else '%s writes the rank counter' % p, ctx.where(b, ws[0][1]), props=('C10',))
    # add_node: counter+1, and the new node gets that value
    an = F.body_by_path(G + 'add_node')
    if an is not None:
        good = False
        b = an
        incs = []
        for (_, bb, si, rv) in lastw.get(an.path, []):
            srv = None
            if rv['k'] == 'bin':
                srv = rv
                vo = None
            elif rv['k'] == 'use':
                vo = b.orig_operand(F.operand(rv['op']))
                for o in vo:
                    if o.kind == 'op':
                        srv = b.blocks[o.key[0]]['stmts'][o.key[1]]['rv']
            if srv is not None and srv['k'] == 'bin' and srv['bop'].startswith('Add') and srv['b'].get('k', {}).get('int') == '1' and \
                    any(('f', last) in x.path for x in b.orig_operand(F.operand(srv['a']))):
                incs.append((bb, vo))
        recs = []  # (block, origins of the rank given to the new record)
        for c in b.calls.values():
            cb = F.callee_body(c)
            if cb is not None and c.name == 'new' and type_head(c.dest_ty) == g['noderec'] and c.args:
                recs.append((c.bb, b.orig_operand(c.args[0])))
        for l, ds in b.defs.items():
            for d in ds:
                if d[0] == 'stmt' and d[3]['k'] == 'aggr' and strip_generics(b.fix(d[3]['ak'].get('adt', ''))) == g['noderec']:
                    adt = F.adts.get(g['noderec'])
                    names = [f['name'] for f in adt['variants'][0]['fields']]
                    if rank in names:
                        recs.append((d[1], b.orig_operand(F.operand(d[3]['ops'][names.index(rank)]))))
        for ibb, vo in incs:
            for rbb, ro in recs:
                if vo is not None and ro == vo:
                    good = True  # the incremented value itself
                elif ro and all(('f', last) in x.path for x in ro) and (rbb == ibb or b.must_before(rbb, lambda n: n == ibb) is None):
                    good = True  # the counter is read back after it was incremented
        R.ob('G3-add-node', an.path, good, 'add_node gives the new node rank last+1 and stores that as the new last rank' if good else 'add_node does not assign last+1 consistently', ctx.where(an), props=('C10',))
    rn = F.body_by_path(G + 'remove_node')
    if rn is not None:
        inf = ctx.infeasible(rn)
        rm = [c for c in rn.find_calls(lambda c: c.name == 'remove' and any(('f', g['node_info']) in o.path for o in rn.orig_operand(c.args[0])))]
        dec = set()
        for (b, bb, si, rv) in lastw.get(rn.path, []):
            vo = b.orig_operand(F.operand(rv['op'])) if rv['k'] == 'use' else frozenset()
            for o in vo:
                if o.kind == 'op':
                    srv = b.blocks[o.key[0]]['stmts'][o.key[1]]['rv']
                    if srv['k'] == 'bin' and srv['bop'].startswith('Sub') and srv['b'].get('k', {}).get('int') == '1':
                        dec.add(bb)
        # "a node was removed" = after the removal call, or - when its Option result is tested - on the Some edge only
        removed_from = []
        if rm:
            some_e = [nd for nd, gd in guard_edges_on_call(rn, rm[0]) if gd.variants() == frozenset(['Some'])]
            none_e = [nd for nd, gd in guard_edges_on_call(rn, rm[0]) if gd.variants() == frozenset(['None'])]
            removed_from = some_e if some_e and none_e else [rm[0].bb]

        def after_removal_all_paths_meet(blocks_):
            for st in removed_from:
                seen_ = rn.reach([st] if isinstance(st, tuple) else rn.xsucc(st), avoid=ctx.both(inf, lambda n: n in blocks_))
                if any(r in seen_ for r in rn.returns()):
                    return False
            return bool(removed_from)
        good = bool(rm) and bool(dec) and after_removal_all_paths_meet(dec)
        R.ob('G3-remove-node-counter', rn.path, good, 'removing a node decrements the rank counter on every path that removed it' if good else 'the rank counter is not decremented when a node is removed',
             ctx.where(rn), props=('C10',))
        # compaction: rank > removed rank  =>  rank -= 1
        comp = False
        for (b, bb, si, rv) in writers.get(rn.path, []):
            vo = b.orig_operand(F.operand(rv['op'])) if rv['k'] == 'use' else frozenset()
            for o in vo:
                if o.kind != 'op':
                    continue
                srv = b.blocks[o.key[0]]['stmts'][o.key[1]]['rv']
                if not (srv['k'] == 'bin' and srv['bop'].startswith('Sub') and srv['b'].get('k', {}).get('int') == '1'):
                    continue
                for gd in b.edges_required_for(bb):
                    if gd.kind != 'bool':
                        continue
                    for oo in gd.origins:
                        if oo.kind != 'op':
                            continue
                        crv = b.blocks[oo.key[0]]['stmts'][oo.key[1]]['rv']
                        if crv['k'] != 'bin':
                            continue
                        l_ = b.orig_operand(F.operand(crv['a']))
                        r_ = b.orig_operand(F.operand(crv['b']))
                        removed_l = any(rm and x.kind == 'call' and x.key == rm[0].bb for x in l_)
                        removed_r = any(rm and x.kind == 'call' and x.key == rm[0].bb for x in r_)
                        opn = crv['bop']
                        t = gd.truth()
                        greater = (opn in ('Gt', 'Ge') and removed_r and t) or (opn in ('Lt', 'Le') and removed_l and t) or \
                                  (opn in ('Le', 'Lt') and removed_r and t is False) or (opn in ('Ge', 'Gt') and removed_l and t is False)
                        if greater:
                            comp = True
        # ... and that scan over all remaining nodes is started on every path that removed a node (no skipped compaction)
        scans = {c.bb for c in rn.find_calls(lambda c: c.name in ('values_mut', 'iter_mut') and any(('f', g['node_info']) in o.path for o in rn.orig_operand(c.args[0])))}
        # the same compaction written as `values_mut().filter(|o| o.rank > removed).for_each(|o| o.rank -= 1)`
        if not comp and rm:
            for fe in rn.find_calls(lambda c: c.qname == 'std::iter::Iterator::for_each' and len(c.args) >= 2):
                wcl = _closure_of(rn, F, fe.args[1])
                if wcl is None or wcl.path not in writers:
                    continue
                decs = False
                for (wb, bb, si, rv) in writers[wcl.path]:
                    for o in (wb.orig_operand(F.operand(rv['op'])) if rv['k'] == 'use' else frozenset()):
                        if o.kind == 'op':
                            srv = wb.blocks[o.key[0]]['stmts'][o.key[1]]['rv']
                            if srv['k'] == 'bin' and srv['bop'].startswith('Sub') and srv['b'].get('k', {}).get('int') == '1':
                                decs = True
                flt = [rn.calls[o.key] for o in rn.orig_operand(fe.args[0]) if o.kind == 'call' and o.key in rn.calls and rn.calls[o.key].qname == 'std::iter::Iterator::filter']
                if not decs or len(flt) != 1:
                    continue
                fcl = _closure_of(rn, F, flt[0].args[1])
                if fcl is None:
                    continue
                for d in fcl.defs.get(0, []):
                    if d[0] == 'stmt' and d[3]['k'] == 'bin':
                        l_ = fcl.orig_operand(F.operand(d[3]['a']))
                        r_ = fcl.orig_operand(F.operand(d[3]['b']))
                        item_l = bool(l_) and all(x.kind == 'arg' and x.key == 2 and ('f', rank) in x.path for x in l_)
                        item_r = bool(r_) and all(x.kind == 'arg' and x.key == 2 and ('f', rank) in x.path for x in r_)
                        cap_l = bool(l_) and all(x.kind == 'arg' and x.key == 1 for x in l_)
                        cap_r = bool(r_) and all(x.kind == 'arg' and x.key == 1 for x in r_)
                        # the captured value must be the removed node's rank
                        cap_ok = any(rm[0].bb in ctx.base_call_bbs(rn.orig_operand(F.operand(x))) and any(('f', rank) in o.path for o in rn.orig_operand(F.operand(x)))
                                     for o2 in rn.orig_operand(flt[0].args[1]) if o2.kind == 'aggr' for x in rn.blocks[o2.key[0]]['stmts'][o2.key[1]]['rv']['ops'])
                        if cap_ok and ((d[3]['bop'] == 'Gt' and item_l and cap_r) or (d[3]['bop'] == 'Lt' and cap_l and item_r)) and len(fcl.defs.get(0, [])) == 1:
                            comp = True
        if comp and rm and (not scans or not after_removal_all_paths_meet(scans)):
            comp = False
        R.ob('G3-compaction', rn.path, comp, 'after a removal every rank greater than the removed one is decremented (ranks stay gap-free)' if comp
             else 'rank compaction after a removal is missing or compares the wrong way round', ctx.where(rn), props=('C10',))
    if reorder is None:
        R.missing('G4', 'reorder', 'reordering step not found', props=('C10',))
        return
    ctx.reorder = reorder
    b = reorder
    good = True
    why = ''
    for (_, bb, si, rv) in writers.get(b.path, []):
        vo = b.orig_operand(F.operand(rv['op'])) if rv['k'] == 'use' else frozenset()
        if not vo or any(o.kind in ('op', 'const') for o in vo):
            good = False
            why = 'a rank written by the reordering step is computed (%s), not taken from the set of ranks being permuted' % b.describe_origins(vo)
        if not all(o.kind == 'call' and b.calls[o.key].name == 'next' for o in vo):
            good = False
            why = why or 'rank written from %s' % b.describe_origins(vo)
    R.ob('G4-permutation', b.path, good, 'the reordering step only re-assigns ranks it read from the affected nodes (no arithmetic, no constants)' if good else why, ctx.where(b), props=('C10', 'C07', 'C04'))
    # lock-step pushes
    loops = []
    for nx in b.find_calls(lambda c: c.name == 'next'):
        some_e = [n for n, gd in guard_edges_on_call(b, nx) if gd.variants() == frozenset(['Some'])]
        pushes = [c for c in b.find_calls(lambda c: c.qname == 'std::vec::Vec::push') if nx.bb in ctx.base_call_bbs(b.orig_operand(c.args[1]))]
        if not pushes:
            continue
        targets = []
        ok = True
        for p in pushes:
            for e in some_e:
                seen = b.reach([e], avoid=ctx.both(ctx.infeasible(b), lambda n: n == p.bb))
                if nx.bb in seen or any(r in seen for r in b.returns()):
                    ok = False
            targets.append(tuple(sorted((o.kind, str(o.key)) for o in b.orig_operand(p.args[0]))))
        loops.append((nx, sorted(targets), ok))
    good = len(loops) >= 2 and all(l[2] for l in loops) and len({tuple(l[1]) for l in loops}) == 1 and all(len(l[1]) == 2 for l in loops)
    if not good and not loops:
        # `(keys, ranks) = pairs.unzip()`: one key and one rank per pair by construction; both vectors must come from that one unzip
        uz = b.find_calls(lambda c: c.qname == 'std::iter::Iterator::unzip')
        zp = b.find_calls(lambda c: c.qname == 'std::iter::Iterator::zip' and len(c.args) == 2)
        if len(uz) == 1 and len(zp) == 1:
            srcs = [ancestors(b, b.orig_operand(a), depth=8) for a in zp[0].args]
            if all(uz[0].bb in s_ or uz[0].bb in ctx.base_call_bbs(b.orig_operand(a)) for s_, a in zip(srcs, zp[0].args)):
                good = True
    R.ob('G4-lockstep', b.path, good, 'keys and ranks of both change sets are collected in lock-step (one key and one rank per node)' if good
         else 'keys and ranks are not collected pairwise for every affected node', ctx.where(b), props=('C10', 'C07', 'C04'))
    # N3: each change set is sorted by the rank component of its (key, rank) pairs
    for c in b.find_calls(lambda c: c.qname.startswith('core::slice::sort')):
        if c.qname not in ('core::slice::sort_unstable_by_key', 'core::slice::sort_by_key'):
            continue
        # which tuple index holds the rank: look at the map closure that built the vector's elements
        vec_anc = ancestors(b, b.orig_operand(c.args[0]), depth=10)
        rank_idx = None
        for x in vec_anc.values():
            if x.qname != 'std::iter::Iterator::map':
                continue
            for o in b.orig_operand(x.args[1]):
                if o.kind == 'aggr':
                    cid = b.blocks[o.key[0]]['stmts'][o.key[1]]['rv']['ak'].get('closure')
                    mc = F.bodies.get(cid)
                    if mc is None:
                        continue
                    for d in mc.defs.get(0, []):
                        if d[0] == 'stmt' and d[3]['k'] == 'aggr' and d[3]['ak'].get('tuple'):
                            for i, op in enumerate(d[3]['ops']):
                                if any(('f', g['rank']) in q.path for q in mc.orig_operand(F.operand(op))):
                                    rank_idx = i
        key_idx = None
        for o in b.orig_operand(c.args[1]):
            if o.kind == 'aggr':
                cid = b.blocks[o.key[0]]['stmts'][o.key[1]]['rv']['ak'].get('closure')
                kc = F.bodies.get(cid)
                if kc is not None:
                    ro = kc.orig_local(0)
                    idxs = {p[1] for q in ro if q.kind == 'arg' and q.key == 2 for p in q.path if isinstance(p, tuple) and p[0] == 'f'}
                    if len(idxs) == 1 and len(ro) == 1:
                        key_idx = int(next(iter(idxs)))
        ok = rank_idx is not None and key_idx == rank_idx
        R.ob('N3-sort-key', b.path + '#' + b.describe_origins(frozenset(o for o in b.orig_operand(c.args[0]))), ok, 'the change set is sorted by its rank component (unique old ranks)' if ok
             else 'the change set is sorted by tuple field %s, but the rank is field %s: nodes inside a change set lose their relative order' % (key_idx, rank_idx), ctx.where(b, c.bb), props=('C16', 'C10', 'C07', 'C04'))
    srts = [c for c in b.find_calls(lambda c: c.qname in ('core::slice::sort_unstable_by_key', 'core::slice::sort_by_key'))]
    R.floor('N3-sort-key', 'sorted change sets in the reordering step', len(srts), 2, props=('C10', 'C16', 'C07', 'C04'))
    plain = [c for c in b.find_calls(lambda c: c.qname in ('core::slice::sort_unstable', 'core::slice::sort'))]
    R.ob('G4-ranks-sorted', b.path, len(plain) == 1, 'the pooled ranks are sorted ascending before they are handed out' if len(plain) == 1 else 'the pooled ranks are not sorted before reassignment', ctx.where(b), props=('C10', 'C07', 'C04'))


# ------------------------------------------------------------------------------------------------
# C07 graph part + comparison decision tables (C10)
# ------------------------------------------------------------------------------------------------

def _cmp_truth(opn, order):
    """truth of `a <op> b` when a ? b is `order` in {lt, eq, gt}"""
    return {'Lt': order == 'lt', 'Le': order in ('lt', 'eq'), 'Gt': order == 'gt', 'Ge': order in ('gt', 'eq'), 'Eq': order == 'eq', 'Ne': order != 'eq'}.get(opn)


def decision_avoid(ctx, body, is_x, is_y, order):
    """avoid-predicate pruning bool switch edges on comparisons between an X-operand and a Y-operand,
    assuming X ? Y is `order`."""
    F = ctx.F
    flip = {'lt': 'gt', 'gt': 'lt', 'eq': 'eq'}

    def avoid(n):
        if not isinstance(n, tuple):
            return False
        gd = body.guard_of(n[1], n[2])
        if gd is not None and gd.kind == 'enum' and len(gd.origins) == 1:
            # `match x.cmp(&y) { Less => .., Equal => .., Greater => .. }`: the ordering decides the arm
            o = next(iter(gd.origins))
            if o.kind == 'call' and not o.path and body.calls[o.key].qname in ('std::cmp::Ord::cmp', 'std::cmp::PartialOrd::partial_cmp') and len(body.calls[o.key].args) == 2 \
                    and body.calls[o.key].qname.endswith('Ord::cmp'):
                c_ = body.calls[o.key]
                a = body.orig_operand(c_.args[0])
                b_ = body.orig_operand(c_.args[1])
                if is_x(a) and is_y(b_):
                    want = {'lt': 'Less', 'eq': 'Equal', 'gt': 'Greater'}[order]
                elif is_y(a) and is_x(b_):
                    want = {'lt': 'Greater', 'eq': 'Equal', 'gt': 'Less'}[order]
                else:
                    return False
                vs = gd.variants()
                return vs is not None and want not in vs
            return False
        if gd is None or gd.kind != 'bool' or len(gd.origins) != 1:
            return False
        o = next(iter(gd.origins))
        if o.kind != 'op':
            return False
        rv = body.blocks[o.key[0]]['stmts'][o.key[1]]['rv']
        if rv['k'] != 'bin' or rv['bop'] not in ('Lt', 'Le', 'Gt', 'Ge', 'Eq', 'Ne'):
            return False
        a = body.orig_operand(F.operand(rv['a']))
        b_ = body.orig_operand(F.operand(rv['b']))
        if is_x(a) and is_y(b_):
            t = _cmp_truth(rv['bop'], order)
        elif is_y(a) and is_x(b_):
            t = _cmp_truth(rv['bop'], flip[order])
        else:
            return False
        return gd.truth() != t
    return avoid


def _ret_defs(b, local=0, depth=0):
    """definitions of the value returned: those of the return place, looking through moves of a whole local into it (the return place of
    a helper that was inlined is such a local)"""
    out = []
    for d in b.defs.get(local, []):
        if d[0] == 'stmt' and d[3]['k'] == 'use' and depth < 4:
            op = b.facts.operand(d[3]['op'])
            if op[0] in ('c', 'm') and not op[1][1] and b.defs.get(op[1][0]):
                out += _ret_defs(b, op[1][0], depth + 1)
                continue
        out.append(d)
    return out


def rule_graph_cycle(ctx):
    R, F = ctx.R, ctx.F
    g = getattr(ctx, 'g', None) or resolve_graph(ctx)
    ae = F.body_by_path(G + 'add_edge')
    if not g or ae is None:
        R.missing('C07G', 'add_edge', 'not resolved', props=('C07', 'C10'))
        return
    inf = ctx.infeasible(ae)
    # self loop
    eqs = [c for c in ae.find_calls(lambda c: c.qname == 'std::cmp::PartialEq::eq' and len(c.args) == 2)]
    eqs = [c for c in eqs if {tuple(sorted(o.key for o in strip_path(ae.orig_operand(a)) if o.kind == 'arg')) for a in c.args} == {(2,), (3,)}]
    def self_loop_test(eq):
        te = [n for n, gd in guard_edges_on_call(ae, eq) if gd.truth() is True]
        fe = [n for n, gd in guard_edges_on_call(ae, eq) if gd.truth() is False]
        ok = bool(te)
        for e in te:
            seen = ae.reach([e], avoid=inf)
            defs = [d for d in _ret_defs(ae) if d[1] in seen]
            for d in defs:
                if d[0] == 'stmt' and d[3]['k'] == 'aggr' and d[3]['ak'].get('variant') == 'Err':
                    po = ae.orig_operand(F.operand(d[3]['ops'][0]))
                    names = {ae.blocks[o.key[0]]['stmts'][o.key[1]]['rv']['ak'].get('variant') for o in po if o.kind == 'aggr'}
                    if names != {'CycleDetected'}:
                        ok = False
                else:
                    ok = False
            muts = [c for c in ae.calls.values() if c.bb in seen and classify(ctx, g, ae, c) is not None and classify(ctx, g, ae, c).op in ('insert', 'remove')]
            if muts:
                ok = False
        # every mutation lies behind the false edge
        allm = [c for c in ae.calls.values() if not ae.blocks[c.bb]['cleanup'] and classify(ctx, g, ae, c) is not None and classify(ctx, g, ae, c).op in ('insert', 'remove')]
        seen = ae.reach([0], avoid=ctx.both(inf, lambda n: n in fe))
        if any(c.bb in seen for c in allm):
            ok = False
        return ok
    # some comparison of src with dst is the self-loop test (another one, e.g. inside an assertion, does not matter)
    good = any(self_loop_test(eq) for eq in eqs)
    R.ob('C07G-self-loop', ae.path, good, 'src == dst is answered Err(CycleDetected) before anything is modified' if good else 'a self-loop is not rejected as a cycle before the graph is modified', ctx.where(ae), props=('C07', 'C10'))
    # forward search: bound = rank(src), start = dst; Err propagated
    fw = [c for c in ae.calls.values() if F.callee_body(c) is not None and F.callee_body(c).crate == 'pie_graph' and type_head(c.dest_ty) == 'std::result::Result' and not ae.blocks[c.bb]['cleanup']]
    fw = [c for c in fw if 'Error' in c.dest_ty and F.callee_body(c).name not in MUTATORS]
    if len(fw) != 1:
        R.undecided('C07G-forward', ae.path, 'cannot identify the forward search call in add_edge (%d candidates)' % len(fw), ctx.where(ae), props=('C07', 'C10'))
        return
    fc = fw[0]
    dfs = F.callee_body(fc)
    ctx.dfs_fwd = dfs
    start = strip_path(ae.orig_operand(fc.args[1]))
    bound = ae.orig_operand(fc.args[-1])
    bnode = strip_path(_slot_key_of(ae, frozenset(Origin(o.kind, o.key, ()) for o in bound), g))
    good = is_param(start, 3) and is_param(bnode, 2) and all(('f', g['rank']) in o.path for o in bound)
    R.ob('C07G-forward-args', ae.path, good, 'the forward search starts at dst and is bounded by rank(src)' if good
         else 'forward search starts at %s bounded by %s' % (ae.describe_origins(start), ae.describe_origins(bound)), ctx.where(ae, fc.bb), props=('C07', 'C10'))
    # Err of the search is returned (with the same payload)
    def avoid_ok(n):
        if isinstance(n, tuple):
            gd = ae.guard_of(n[1], n[2])
            if gd is not None and gd.kind == 'enum' and gd.origins and all(o.kind == 'call' and o.key == fc.bb and not o.path for o in gd.origins):
                vs = gd.variants()
                return vs is not None and not (vs & {'Err', 'Break'})
        return False
    seen = ae.reach([fc.bb], avoid=ctx.both(inf, avoid_ok))
    kinds = set()
    for d in _ret_defs(ae):
        if d[1] in seen and d[1] != fc.bb:
            if d[0] == 'stmt' and d[3]['k'] == 'aggr':
                v = d[3]['ak'].get('variant')
                if v == 'Err':
                    po = ae.orig_operand(F.operand(d[3]['ops'][0]))

                    def from_search(os_, depth=0):
                        """the error is the search's own: directly, or passed on by `?` (from_residual of the search's residual)"""
                        if not os_:
                            return False
                        for o in os_:
                            if o.kind == 'aggr' and depth < 4:
                                # a residual written out (`Err(e)` rebuilt from the search's error on the way of a `?`)
                                rv_ = ae.blocks[o.key[0]]['stmts'][o.key[1]]['rv']
                                if rv_['ak'].get('variant') == 'Err' and rv_['ops'] and from_search(ae.orig_operand(F.operand(rv_['ops'][0])), depth + 1):
                                    continue
                                return False
                            if o.kind != 'call':
                                return False
                            if o.key == fc.bb:
                                continue
                            c_ = ae.calls[o.key]
                            if c_.qname == 'std::ops::FromResidual::from_residual' and depth < 3 and from_search(ae.orig_operand(c_.args[0]), depth + 1):
                                continue
                            return False
                        return True
                    kinds.add('Err' if from_search(po) else 'Err(other)')
                else:
                    kinds.add(v)
            elif d[0] == 'call' and d[2].qname == 'std::ops::FromResidual::from_residual':
                kinds.add('Err')
            else:
                kinds.add('?')
    R.ob('C07G-forward-err', ae.path, kinds == {'Err'}, 'a cycle found by the forward search is returned to the caller' if kinds == {'Err'} else 'when the forward search reports a cycle add_edge can return %s' % sorted(kinds),
         ctx.where(ae, fc.bb), props=('C07', 'C10'))
    # window test in add_edge: search iff rank(dst) < rank(src)
    def is_rank_of(idx):
        def f(os_):
            if not os_ or not all(('f', g['rank']) in o.path for o in os_):
                return False
            return is_param(strip_path(_slot_key_of(ae, frozenset(Origin(o.kind, o.key, ()) for o in os_), g)), idx)
        return f
    res = {}
    for order in ('lt', 'gt'):
        av = decision_avoid(ctx, ae, is_rank_of(3), is_rank_of(2), order)
        # only consider paths on which the edge is new: reachability of the search call from entry
        seen = ae.reach([0], avoid=ctx.both(inf, av))
        res[order] = fc.bb in seen
    good = res['lt'] and not res['gt']
    R.ob('C10-window', ae.path, good, 'the search/reorder runs exactly when rank(dst) < rank(src) (the new edge points backwards in the order)' if good
         else 'search/reorder: runs when rank(dst)<rank(src): %s; runs when rank(dst)>rank(src): %s' % (res['lt'], res['gt']), ctx.where(ae, fc.bb), props=('C10', 'C07', 'C04'))
    # decision table inside the forward search: child rank ? bound
    _dfs_table(ctx, g, dfs, bound_param=dfs.argc, forward=True)
    bw = [c for c in ae.calls.values() if F.callee_body(c) is not None and F.callee_body(c).crate == 'pie_graph' and c.bb != fc.bb and not ae.blocks[c.bb]['cleanup']
          and len(c.args) == len(fc.args) and F.callee_body(c).name not in MUTATORS and F.callee_body(c).id not in getattr(ctx, 'rank_writers', set())
          and F.callee_body(c).argc == dfs.argc and F.callee_body(c).id != dfs.id]
    if len(bw) == 1:
        bc = bw[0]
        start = strip_path(ae.orig_operand(bc.args[1]))
        bound = ae.orig_operand(bc.args[-1])
        bnode = strip_path(_slot_key_of(ae, frozenset(Origin(o.kind, o.key, ()) for o in bound), g))
        good = is_param(start, 2) and is_param(bnode, 3) and all(('f', g['rank']) in o.path for o in bound)
        R.ob('C10-backward-args', ae.path, good, 'the backward search starts at src and is bounded by rank(dst)' if good else 'backward search arguments are not (src, rank(dst))', ctx.where(ae, bc.bb), props=('C10', 'C07', 'C04'))
        _dfs_table(ctx, g, F.callee_body(bc), bound_param=F.callee_body(bc).argc, forward=False)
        # reorder receives (forward set, backward set) in the callee's parameter order and follows both searches
        ro = getattr(ctx, 'reorder', None)
        if ro is not None:
            rc = [c for c in ae.calls.values() if F.callee_body(c) is not None and F.callee_body(c).id == ro.id]
            good = len(rc) == 1 and ctx.base_call_bbs(ae.orig_operand(rc[0].args[1])) == {fc.bb} and ctx.base_call_bbs(ae.orig_operand(rc[0].args[2])) == {bc.bb}
            R.ob('C10-reorder-args', ae.path, good, 'the reordering step is given the forward and the backward change set in that order' if good else 'reordering step receives its change sets swapped or from elsewhere', ctx.where(ae), props=('C10', 'C07', 'C04'))
            if ro is not None:
                # backward set is laid out before the forward set: first loop pushes items derived from param 3 (backward), second from param 2
                nxs = sorted(ro.find_calls(lambda c: c.name == 'next' and any(p.qname == 'std::vec::Vec::push' and c.bb in ctx.base_call_bbs(ro.orig_operand(p.args[1])) for p in ro.calls.values())), key=lambda c: c.bb)
                order = []
                for nx in nxs:
                    anc = ancestors(ro, ro.orig_operand(nx.args[0]), depth=12)
                    roots = set()
                    for c in anc.values():
                        for a in c.args:
                            for o in ro.orig_operand(a):
                                if o.kind == 'arg' and o.key in (2, 3):
                                    roots.add(o.key)
                    order.append(tuple(sorted(roots)))
                # dominance order of the two loops
                good = len(nxs) == 2 and order[0] != order[1] and len(order[0]) == 1 and len(order[1]) == 1
                if good:
                    first_is_bwd = None
                    a, b_ = nxs
                    if ro.must_before(b_.bb, lambda n: n == a.bb) is None:
                        first_is_bwd = order[0] == (3,)
                    elif ro.must_before(a.bb, lambda n: n == b_.bb) is None:
                        first_is_bwd = order[1] == (3,)
                    good = first_is_bwd is True
                if not good and not nxs:
                    # the same layout written as `backward.into_iter().chain(forward)`: the receiver of `chain` comes first
                    def roots_of(op):
                        rs = set()
                        work = [ro.orig_operand(op)]
                        anc = ancestors(ro, ro.orig_operand(op), depth=12)
                        for o in ro.orig_operand(op):
                            if o.kind == 'arg' and o.key in (2, 3):
                                rs.add(o.key)
                        for c in anc.values():
                            for a in c.args:
                                for o in ro.orig_operand(a):
                                    if o.kind == 'arg' and o.key in (2, 3):
                                        rs.add(o.key)
                        return rs
                    chains = ro.find_calls(lambda c: c.qname == 'std::iter::Iterator::chain' and len(c.args) == 2)
                    if len(chains) == 1 and roots_of(chains[0].args[0]) == {3} and roots_of(chains[0].args[1]) == {2}:
                        good = True
                R.ob('C10-reorder-layout', ro.path, good, 'the nodes that reach src (backward set) are laid out before the nodes reachable from dst (forward set)' if good
                     else 'the two change sets are not laid out backward-set-first (the new edge would point backwards in the order)', ctx.where(ro), props=('C10', 'C07', 'C04'))
    else:
        R.undecided('C10-backward-args', ae.path, 'cannot identify the backward search call (%d candidates)' % len(bw), ctx.where(ae), props=('C10',))


def _dfs_table(ctx, g, dfs, bound_param, forward):
    """neighbour rank ? bound: what the search does for lt / eq / gt."""
    R, F = ctx.R, ctx.F
    inf = ctx.infeasible(dfs)
    fld = g['children'] if forward else g['parents']
    used = {n for a, n in fields_used(F, dfs) if a == g['noderec'] and n in g['adj_fields']}
    R.ob('C10-dfs-side', dfs.path, used == {fld}, 'the %s search walks the %s sets' % ('forward' if forward else 'backward', fld) if used == {fld} else 'search walks %s' % sorted(used),
         ctx.where(dfs), props=('C10', 'C07', 'C04') if forward else ('C10', 'C07', 'C04'))

    def is_bound(os_):
        return is_param(os_, bound_param)

    def is_nrank(os_):
        return bool(os_) and all(('f', g['rank']) in o.path for o in os_) and not is_bound(os_)
    pushes = {c.bb for c in dfs.find_calls(lambda c: c.qname == 'std::vec::Vec::push')}
    # the initial push of the start node is not part of the per-neighbour decision
    loop_next = [c for c in dfs.find_calls(lambda c: c.name == 'next')]
    errs = [d[1] for d in dfs.defs.get(0, []) if d[0] == 'stmt' and d[3]['k'] == 'aggr' and d[3]['ak'].get('variant') == 'Err']
    table = {}
    for order in ('lt', 'eq', 'gt'):
        av = decision_avoid(ctx, dfs, is_nrank, is_bound, order)
        starts = []
        for nx in loop_next:
            starts += [n for n, gd in guard_edges_on_call(dfs, nx) if gd.variants() == frozenset(['Some'])]
        seen = dfs.reach(starts, avoid=ctx.both(inf, av), stop=lambda n: n in {c.bb for c in loop_next})
        table[order] = ('push' if any(p in seen for p in pushes) else '') + ('+err' if any(e in seen for e in errs) else '')
    if forward:
        want = {'lt': 'push', 'eq': '+err', 'gt': ''}
        msg = 'forward search: a child below the bound is explored, a child at the bound (= src) is a cycle, a child above it is outside the affected window'
    else:
        # bound ? parent rank is expressed as neighbour ? bound: parent > lower bound => explore
        want = {'lt': '', 'eq': '', 'gt': 'push'}
        msg = 'backward search: a parent above the lower bound is explored, others are outside the affected window'
    R.ob('C10-dfs-table', dfs.path, table == want, msg if table == want else 'neighbour-rank vs bound decisions are %s, expected %s' % (table, want), ctx.where(dfs), props=('C10', 'C07', 'C04') if forward else ('C10', 'C07', 'C04'))
    # every neighbour is examined: whatever its rank, the scan of the adjacency continues with the next neighbour (unless a cycle was reported)
    outer = {c.bb for c in dfs.find_calls(lambda c: c.name == 'pop')}
    nxb = {c.bb for c in loop_next}
    cont_ok = True
    for order in ('lt', 'gt') + (() if forward else ('eq',)):
        av = decision_avoid(ctx, dfs, is_nrank, is_bound, order)
        starts = []
        for nx in loop_next:
            starts += [n for n, gd in guard_edges_on_call(dfs, nx) if gd.variants() == frozenset(['Some'])]
        seen = dfs.reach(starts, avoid=ctx.both(inf, av, lambda n: n in nxb))
        if any(o in seen for o in outer) or any(r in seen for r in dfs.returns()):
            cont_ok = False
    R.ob('C10-dfs-continue', dfs.path, cont_ok and bool(loop_next), 'the scan of a node\'s neighbours is never cut short (adjacency is in insertion order, not rank order)' if cont_ok and loop_next
         else 'the scan of a node\'s neighbours can stop early at a neighbour outside the window: later neighbours (possibly the cycle witness) are never examined', ctx.where(dfs),
         props=('C10', 'C07', 'C04') if forward else ('C10', 'C07', 'C04'))
    if forward:
        # the Err payload is CycleDetected
        ok = True
        for d in dfs.defs.get(0, []):
            if d[0] == 'stmt' and d[3]['k'] == 'aggr' and d[3]['ak'].get('variant') == 'Err':
                po = dfs.orig_operand(F.operand(d[3]['ops'][0]))
                names = {dfs.blocks[o.key[0]]['stmts'][o.key[1]]['rv']['ak'].get('variant') for o in po if o.kind == 'aggr'}
                if names != {'CycleDetected'}:
                    ok = False
        R.ob('C07G-dfs-err', dfs.path, ok and bool(errs), 'reaching the bound is reported as CycleDetected' if ok and errs else 'the search does not report CycleDetected', ctx.where(dfs), props=('C07',))
    # visited discipline of the search: push only unvisited neighbours; every popped node enters the result
    vis_false = set()
    for (bb, k), gd in dfs.guards.items():
        if gd.kind == 'bool' and gd.truth() is False:
            for sc in gd.subject_calls():
                if sc.name == 'contains' and all(o.kind == 'arg' for o in dfs.orig_operand(sc.args[0])):
                    vis_false.add(('e', bb, k))
    starts = []
    for nx in loop_next:
        starts += [n for n, gd in guard_edges_on_call(dfs, nx) if gd.variants() == frozenset(['Some'])]
    seen = dfs.reach(starts, avoid=ctx.both(inf, lambda n: n in vis_false), stop=lambda n: n in {c.bb for c in loop_next})
    good = bool(vis_false) and not any(p in seen for p in pushes)
    R.ob('C10-dfs-visited', dfs.path, good, 'a neighbour is pushed only if it has not been visited' if good else 'already-visited neighbours can be pushed again', ctx.where(dfs), props=('C10', 'C07'))
    pops = dfs.find_calls(lambda c: c.name == 'pop')
    ins = [c for c in dfs.find_calls(lambda c: c.name == 'insert' and len(c.args) > 1 and any(ctx.base_call_bbs(dfs.orig_operand(c.args[1])) == {p.bb} for p in pops))]
    targets = {tuple(sorted((o.kind, str(o.key)) for o in dfs.orig_operand(c.args[0]))) for c in ins}
    good = len(targets) >= 2
    R.ob('C10-dfs-result', dfs.path, good, 'every popped node is marked visited and added to the change set' if good else 'popped nodes are not recorded in both the visited set and the result', ctx.where(dfs), props=('C10', 'C07', 'C04'))
