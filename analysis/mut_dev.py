"""Dev aid: apply one inline edit (file, find, replace) to a scratch copy and list failing obligations."""
import sys, os
sys.path.insert(0, os.path.dirname(os.path.abspath(__file__)))
import mutate, engine
def runner(fd):
    F, roles, R = engine.run_all(fd)
    return [o for o in R.obs if not o['ok']]
if __name__ == '__main__':
    args = sys.argv[1:]
    edits = []
    while args:
        edits.append(dict(file=args[0], find=args[1], replace=args[2])); args = args[3:]
    td = '/tmp/pie-mut-target-dev'
    r = mutate.run_mutant(os.environ.get('PIE_REPO', '/repo'), dict(edits=edits), td, runner)
    print(r['status'], r.get('note', ''))
    for o in r['failing']:
        print('[%s] %-14s %s\n     %s\n     @ %s props=%s' % (o['status'], o['rule'], o['key'], o['msg'][:1500], o['where'], ','.join(o['props'])))
    print(len(r['failing']), 'failing')
