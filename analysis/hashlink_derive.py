"""Thorough tier: re-derive, from hashlink's own MIR, which public LinkedHashSet / LinkedHashMap
operations can re-link an element that is already present (detach + attach of an existing node),
and compare with the frozen table REORDERING used by ORD-2."""
import os, sys
HERE = os.path.dirname(os.path.abspath(__file__))
sys.path.insert(0, HERE)
import extract
from core import Facts


def derive(repo='/repo'):
    F = Facts(extract.facts_dir(repo, 'hashlink'))
    bodies = [b for b in F.bodies.values() if b.crate == 'hashlink']
    by_id = {b.id: b for b in bodies}
    # direct relinkers: bodies that call both detach_node and attach_before (moving an existing node)
    def calls(b):
        return {c.qname for c in b.calls.values() if not b.blocks[c.bb]['cleanup']}
    direct = {b.id for b in bodies if any(q.endswith('detach_node') for q in calls(b)) and any(q.endswith('attach_before') for q in calls(b))}
    # may-reach closure over hashlink's own call graph (exact callee or any impl of the trait method; closures included)
    callees = {}
    for b in bodies:
        out = set()
        for x in F.with_closures(b):
            for c in x.calls.values():
                for t in F.callee_candidates(c):
                    if t.crate == 'hashlink':
                        out.add(t.id)
        callees[b.id] = out
    reach = set(direct)
    changed = True
    while changed:
        changed = False
        for b in bodies:
            if b.id not in reach and callees[b.id] & reach:
                reach.add(b.id)
                changed = True
    pub = []
    for b in bodies:
        if b.id in reach and b.kind == 'AssocFn' and b.impl_self and not b.impl_trait:
            head = b.impl_self.split('<')[0]
            if head in ('hashlink::LinkedHashSet', 'hashlink::LinkedHashMap', 'hashlink::linked_hash_set::LinkedHashSet', 'hashlink::linked_hash_map::LinkedHashMap'):
                pub.append(('hashlink::' + head.split('::')[-1] + '::' + b.name))
    return sorted(set(pub)), len(bodies), sorted(by_id[i].path for i in direct)


if __name__ == '__main__':
    pub, n, direct = derive()
    print('hashlink bodies:', n)
    print('direct relinkers:', direct)
    print('public set/map methods that may re-link an existing element:')
    for p in pub: print('  ', p)
