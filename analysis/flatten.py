"""Normalisation by inlining: a second *view* of the same program in which newly introduced private helper
functions are inlined into their callers (MIR-level inlining on the fact dictionaries).

Why: the rules examine the functions of pie's own decomposition (make-consistent, check, execute-and-schedule,
validate, add_edge, the searches, ...). Extracting a few statements of such a function into a new private helper
(or splitting it) does not change behaviour, but moves anchors out of the body a rule looks at. Inlining the
helper back gives a body of the shape the rules know. Inlining is semantics-preserving, so a rule set that is
sound on any program and passes on the inlined view has established its clauses for the program itself
(engine.run_views picks, per property, a view in which every obligation holds, if there is one).

What is inlined: a function of the analysed crates that is (1) not `pub`, (2) not a trait-impl method, (3) not in
the table PINNED below, (4) called only through statically resolved calls (never used as a value), (5) not part
of a recursion. PINNED lists the non-`pub` functions of the pinned tree: they are the decomposition the rules are
written against, so they are never inlined; the table is only a hint for this normalisation - if one of them is
renamed it is treated like a new helper in the inlined view, while the raw view still sees it unchanged.
"""
import copy
import re
from collections import defaultdict

from core import Body, Facts

CRATES = ('pie', 'pie_graph')

# non-`pub` functions of the pinned tree (crate, name) - the decomposition the rules know
PINNED = {
    'pie': {'hash', 'hash_file', 'hash_directory', 'new', 'metadata', 'exists', 'writeln', 'write', 'write_nl', 'indent', 'unindent', 'write_indentation', 'flush',
            'ensure_inserted_and_correct_type', 'make_task_consistent', 'check_task', 'execute_and_schedule', 'try_schedule_task_by_resource_dependency', 'execute',
            'execute_obj', 'require_scheduled_now', 'is_not_empty', 'add', 'pop', 'pop_least_task_with_dependency_from', 'sort_by_dependencies', 'validate_write'},
    'pie_graph': {'new', 'dfs_forward', 'dfs_backward', 'reorder_nodes', 'get_node', 'clear'},
}
# pinned helpers are identified by (name, type they belong to); a *new* function that happens to reuse such a name on
# another type (e.g. a new `TopDownContext::execute`) is still a helper
PINNED_OWNERS = {
    ('pie', 'execute'): ('BottomUpContext',), ('pie', 'new'): ('OpenRead', 'Queue'), ('pie', 'add'): ('Queue',), ('pie', 'pop'): ('Queue',),
    ('pie', 'write'): ('WritingTracker',), ('pie', 'flush'): ('WritingTracker',), ('pie', 'hash'): ('HashChecker',), ('pie', 'make_task_consistent'): ('TopDownContext', 'BottomUpContext'),
    ('pie_graph', 'new'): ('NodeInfo',), ('pie_graph', 'clear'): ('StackVisitedScratchSpace',),
}


def _is_pinned(b):
    if b.name not in PINNED.get(b.crate, ()):
        return False
    owners = PINNED_OWNERS.get((b.crate, b.name))
    if owners is None:
        return True
    return any(o in (b.impl_self or '') for o in owners)


def _fn_values(F):
    """ids of functions used as a value (fn item constants in operands), which therefore cannot be removed/inlined away"""
    out = set()

    def op(o):
        if isinstance(o, dict) and 'k' in o and isinstance(o['k'], dict) and 'fn' in o['k']:
            i = o['k']['fn'].get('id')
            if i:
                out.add(i)
    for b in F.bodies.values():
        for blk in b.blocks:
            for s in blk['stmts']:
                rv = s.get('rv', {})
                for kk in ('op', 'a', 'b'):
                    if kk in rv:
                        op(rv[kk])
                for o in rv.get('ops', []):
                    op(o)
            t = blk['term']
            for o in t.get('args', []):
                op(o)
    return out


def helper_candidates(F):
    """bodies that may be inlined into their callers (see module doc)"""
    vals = _fn_values(F)
    callers = defaultdict(list)  # callee id -> [(caller body, bb)]
    unresolved_use = set()
    for b in F.bodies.values():
        for bb, c in b.calls.items():
            cb = F.callee_body(c)
            if cb is not None:
                callers[cb.id].append((b, bb))
    cands = {}
    for b in F.bodies.values():
        if b.crate not in CRATES or b.is_test_code() or getattr(b, 'unit_is_test', False):
            continue
        if b.kind not in ('Fn', 'AssocFn') or b.impl_trait or b.in_trait:
            continue
        if b.d.get('vis') is None or b.d.get('vis') == 'pub':
            continue
        if _is_pinned(b) or b.id in vals or b.id in unresolved_use:
            continue
        cs = [(cb, bb) for cb, bb in callers.get(b.id, []) if not cb.is_test_code()]
        if not cs:
            continue
        cands[b.id] = b
    # drop recursion: a candidate that can reach itself through static calls
    graph = {i: {F.callee_body(c).id for c in b.calls.values() if F.callee_body(c) is not None} for i, b in F.bodies.items()}

    def reaches_self(i):
        seen, st = set(), list(graph.get(i, ()))
        while st:
            x = st.pop()
            if x == i:
                return True
            if x in seen:
                continue
            seen.add(x)
            st.extend(graph.get(x, ()))
        return False
    return {i: b for i, b in cands.items() if not reaches_self(i)}


def _subst_ty(s, m):
    if not m or not isinstance(s, str):
        return s
    return re.sub(r"(?<![\w:'])(%s)(?![\w])" % '|'.join(re.escape(k) for k in m), lambda mo: m[mo.group(1)], s)


def _shift_place(p, off):
    return {'l': p['l'] + off, 'p': p['p']}


def _shift_op(o, off):
    if 'c' in o:
        return {'c': _shift_place(o['c'], off)}
    if 'm' in o:
        return {'m': _shift_place(o['m'], off)}
    return o


def _shift_rv(rv, off, m):
    rv = dict(rv)
    for kk in ('op', 'a', 'b'):
        if kk in rv:
            rv[kk] = _shift_op(rv[kk], off)
    if 'ops' in rv:
        rv['ops'] = [_shift_op(o, off) for o in rv['ops']]
    if 'pl' in rv:
        rv['pl'] = _shift_place(rv['pl'], off)
    if 'ty' in rv:
        rv['ty'] = _subst_ty(rv['ty'], m)
    return rv


def _shift_term(t, off_l, off_b, m):
    t = copy.deepcopy(t)
    for kk in ('t', 'otherwise'):
        if kk in t and isinstance(t[kk], int) and t[kk] >= 0:
            t[kk] += off_b
    if 'uw' in t and isinstance(t['uw'], int) and t['uw'] >= 0:
        t['uw'] += off_b
    if 'arms' in t:
        t['arms'] = [[v, tg + off_b] for v, tg in t['arms']]
    if 'args' in t:
        t['args'] = [_shift_op(o, off_l) for o in t['args']]
    for kk in ('op', 'cond'):
        if kk in t:
            t[kk] = _shift_op(t[kk], off_l)
    for kk in ('dest', 'pl'):
        if kk in t:
            t[kk] = _shift_place(t[kk], off_l)
    if 'f' in t:
        if 'indirect' in t['f']:
            t['f'] = {'indirect': _shift_op(t['f']['indirect'], off_l)}
        elif 'fn' in t['f'] and m:
            fn = dict(t['f']['fn'])
            if 'gargs' in fn:
                fn['gargs'] = [_subst_ty(g, m) for g in fn['gargs']]
            for kk in ('self_ty', 'impl_self'):
                if kk in fn:
                    fn[kk] = _subst_ty(fn[kk], m)
            t['f'] = {'fn': fn}
    for kk in ('dest_ty', 'ty'):
        if kk in t:
            t[kk] = _subst_ty(t[kk], m)
    return t


def inline_dict(F, d, crate, inline_ids, flat_cache, stack=()):
    """Returns a copy of body dict `d` with every static call to a body in inline_ids replaced by that body (itself flattened)."""
    body = F.bodies[d['id']]
    sites = [(bb, F.callee_body(c)) for bb, c in sorted(body.calls.items()) if F.callee_body(c) is not None and F.callee_body(c).id in inline_ids
             and F.callee_body(c).id not in stack and F.callee_body(c).id != d['id']]
    if not sites:
        return d, []
    nd = dict(d)
    nd['locals'] = list(d['locals'])
    nd['blocks'] = [dict(b, stmts=list(b['stmts'])) for b in d['blocks']]
    inlined = []
    for bb, cb in sites:
        if cb.id not in flat_cache:
            flat_cache[cb.id] = inline_dict(F, cb.d, cb.crate, inline_ids, flat_cache, stack + (d['id'],))[0]
        c = flat_cache[cb.id]
        term = nd['blocks'][bb]['term']
        gm = {}
        gens = [g for g in c.get('generics', [])]
        ga = term['f']['fn'].get('gargs', []) if 'fn' in term['f'] else []
        if gens and len(gens) == len(ga):
            gm = {g: a for g, a in zip(gens, ga) if g != a and not g.startswith("'")}
        _splice(nd, bb, c, cb.id, [(i + 1, a) for i, a in enumerate(term['args'])], gm)
        inlined.append(cb.id)
    # closures handed to an inlined helper and called there (`fn for_both(&mut self, f: impl Fn(&mut dyn Tracker)) { f(a); f(b) }`):
    # after the helper went into the caller the closure's type is known, so its calls are inlined too (rust-call ABI: (closure, (args..)))
    if inlined:
        own = {x.id: x for x in F.closures_of(body)}
        changed, rounds = True, 0
        while changed and rounds < 4:
            changed = False
            rounds += 1
            for bb in range(len(nd['blocks'])):
                t = nd['blocks'][bb]['term']
                if t['k'] != 'call' or 'fn' not in t['f'] or nd['blocks'][bb]['cleanup']:
                    continue
                fn = t['f']['fn']
                if fn.get('name') not in ('call', 'call_mut', 'call_once') or 'ops::Fn' not in ((fn.get('trait') or '') + (fn.get('path') or '')):
                    continue
                ga = fn.get('gargs', [])
                if not ga or '{closure@' not in ga[0] or len(t['args']) != 2:
                    continue
                m = re.search(r'\{closure@([^:]+):(\d+):', ga[0])
                if not m:
                    continue
                cands = [x for x in own.values() if x.kind == 'Closure' and x.file.endswith(m.group(1).split('/')[-1]) and x.line == int(m.group(2))]
                if len(cands) != 1:
                    continue
                cl = cands[0]
                tup = t['args'][1]
                assigns = [(1, t['args'][0])]
                ok = True
                for i in range(cl.argc - 1):
                    pl = tup.get('m') or tup.get('c')
                    if pl is None:
                        ok = False
                        break
                    assigns.append((2 + i, {'m': {'l': pl['l'], 'p': list(pl['p']) + [{'f': i, 'n': str(i)}]}}))
                if not ok:
                    continue
                _splice(nd, bb, cl.d, cl.id, assigns, {})
                inlined.append(cl.id)
                changed = True
    return nd, inlined


def _splice(nd, bb, c, cid, assigns, gm):
    """replace the call terminating block bb of nd by the body dict c; assigns = [(callee parameter local, caller operand)]"""
    nd.setdefault('spliced', [])
    nd['spliced'] = list(nd['spliced']) + [cid]
    term = nd['blocks'][bb]['term']
    off_l, off_b = len(nd['locals']), len(nd['blocks'])
    nd['locals'] += [dict(l, ty=_subst_ty(l['ty'], gm)) for l in c['locals']]
    ln = term.get('fl', nd['blocks'][bb].get('tln', 0))
    nd['blocks'][bb] = dict(nd['blocks'][bb], stmts=list(nd['blocks'][bb]['stmts']))
    for pl, a in assigns:
        nd['blocks'][bb]['stmts'].append({'k': 'a', 'p': {'l': off_l + pl, 'p': []}, 'rv': {'k': 'use', 'op': a}, 'ln': ln, 'inl': cid})
    tgt = term['t']
    nd['blocks'][bb]['term'] = {'k': 'goto', 't': off_b}
    nd['blocks'][bb]['inlined_call'] = cid
    for blk in c['blocks']:
        nb = dict(blk)
        nb['stmts'] = [dict(s_, p=_shift_place(s_['p'], off_l), rv=_shift_rv(s_['rv'], off_l, gm)) if s_['k'] == 'a' else s_ for s_ in blk['stmts']]
        t = blk['term']
        if t['k'] == 'return':
            nb['stmts'] = nb['stmts'] + [{'k': 'a', 'p': term['dest'], 'rv': {'k': 'use', 'op': {'m': {'l': off_l, 'p': []}}}, 'ln': blk.get('tln', ln), 'inl': cid}]
            nb['term'] = {'k': 'goto', 't': tgt} if tgt is not None and tgt >= 0 else {'k': 'unreachable'}
        elif t['k'] == 'resume' and isinstance(term.get('uw'), int) and term['uw'] >= 0:
            nb['term'] = {'k': 'goto', 't': term['uw']}
        else:
            nb['term'] = _shift_term(t, off_l, off_b, gm)
        nb['from_body'] = blk.get('from_body', cid)
        nd['blocks'].append(nb)


def flatten(F, inline_ids):
    """A new Facts in which calls to the given bodies are inlined (helpers inlined everywhere are removed), closure-taking
    iterator consumers are written as loops, and merged Result / Option / bool exits are threaded."""
    G = object.__new__(Facts)
    G.__dict__.update({k: v for k, v in F.__dict__.items() if k != 'bodies' and not k.startswith('_')})  # no per-Facts caches
    G.bodies = {}
    G.raw_facts = F  # the helpers that are inlined everywhere are still examined as the functions they are (rules_checkers F6 / F8)
    cache = {}
    report = {}
    for i, b in F.bodies.items():
        if i in inline_ids:
            continue
        nd, inl = inline_dict(F, b.d, b.crate, inline_ids, cache)
        des = False
        if b.crate in CRATES and not b.is_test_code() and b.kind in ('Fn', 'AssocFn'):
            try:
                nd, des = desugar_dict(F, nd)
                nd, des2 = desugar_combinators_dict(F, nd)
                des = des or des2
            except Exception as e:  # leave the body as it is
                report.setdefault('desugar-errors', []).append('%s: %r' % (b.path, e))
                des = False
        if inl or des:
            nd, _ = thread_dict(nd)
            inl = inl or ['<closure-taking consumers / combinators made explicit>']
            nb = Body(G, b.crate, nd)
            nb.unit, nb.unit_is_test = b.unit, b.unit_is_test
            nb.inlined = inl
            G.bodies[i] = nb
            report[b.path] = sorted({F.bodies[x].path if x in F.bodies else x for x in inl})
        else:
            nb = Body(G, b.crate, b.d)
            nb.unit, nb.unit_is_test = b.unit, b.unit_is_test
            G.bodies[i] = nb
    # a closure whose body went into its parent (consumer / combinator rewritten, or called inside an inlined helper) is represented there;
    # as a separate body it would be judged without the context it is used in
    gone = set()
    for b in G.bodies.values():
        for cid in b.d.get('spliced', []):
            cb_ = F.bodies.get(cid)
            if cb_ is not None and cb_.kind == 'Closure':
                gone.add(cid)
    for cid in gone:
        # keep closures that contain closures / are parents themselves out of the removal only if nothing else hangs below them
        if cid in G.bodies and not any(x.parent == cid for x in G.bodies.values()):
            del G.bodies[cid]
    G._by_path = defaultdict(list)
    for b in G.bodies.values():
        G._by_path[b.path].append(b)
    G._children = defaultdict(list)
    # closures keep their lexical parent; closures of an inlined helper become children of every body the helper went into
    into = defaultdict(set)
    for i, b in G.bodies.items():
        for h in getattr(b, 'inlined', []):
            if h in F.bodies:
                into[h].add(i)
    changed = True
    while changed:  # helpers inlined into helpers
        changed = False
        for h, tgts in list(into.items()):
            for t in list(tgts):
                if t in into:
                    new = into[t] - tgts
                    if new:
                        tgts |= new
                        changed = True
    for b in G.bodies.values():
        if b.parent:
            G._children[b.parent].append(b)
            for t in into.get(b.parent, ()):
                if t in G.bodies:
                    G._children[t].append(b)
    return G, report


# ------------------------------------------------------------------------------------------------------------
# tail duplication ("threading"): after inlining a helper that returns Result / Option / bool, the helper's exits
# (`_0 = Err(..)` on one path, `_0 = Ok(..)` on another) merge before the caller's `match` on the result. A
# path-insensitive reader then sees paths "Ok was produced, Err arm taken". When every definition of the tested local
# has a known variant / constant, the blocks between each definition and the switch are duplicated per definition and
# the switch in the copy is replaced by the jump it must take. Only regions without calls are duplicated (drops, gotos,
# assignments), so no call site is ever duplicated.
# ------------------------------------------------------------------------------------------------------------

def _known_value_of_def(d, stmt_or_term):
    """discriminant / bool value that a definition gives to a whole local, or None"""
    if stmt_or_term.get('k') == 'a':
        rv = stmt_or_term['rv']
        if rv['k'] == 'aggr' and 'vi' in rv['ak'] and rv['ak'].get('adt'):
            return ('variant', rv['ak']['vi'])
        if rv['k'] == 'use' and 'k' in rv['op'] and rv['op']['k'].get('ty') == 'bool':
            return ('bool', 1 if rv['op']['k'].get('int') == '1' else 0)
        return None
    if stmt_or_term.get('k') == 'call' and 'fn' in stmt_or_term['f']:
        fn = stmt_or_term['f']['fn']
        if fn.get('name') == 'from_residual' and 'FromResidual' in (fn.get('trait') or fn.get('path') or ''):
            ty = stmt_or_term.get('dest_ty', '')
            if ty.startswith('std::result::Result') or ty.startswith('core::result::Result'):
                return ('variant', 1)
            if ty.startswith('std::option::Option') or ty.startswith('core::option::Option'):
                return ('variant', 0)
    return None


def thread_dict(d, max_region=16):
    blocks = d['blocks']
    n0 = len(blocks)
    # whole-local definitions
    defs = defaultdict(list)  # local -> [(bb, 'stmt', si) | (bb, 'term', None)]
    for bb, blk in enumerate(blocks):
        if blk['cleanup']:
            continue
        for si, s in enumerate(blk['stmts']):
            if s['k'] == 'a' and not s['p']['p']:
                defs[s['p']['l']].append((bb, 'stmt', si))
        t = blk['term']
        if t['k'] == 'call' and not t['dest']['p']:
            defs[t['dest']['l']].append((bb, 'term', None))

    def succs(blk):
        t = blk['term']
        k = t['k']
        if k == 'goto':
            return [t['t']]
        if k == 'switch':
            return [tg for _, tg in t['arms']] + [t['otherwise']]
        if k in ('drop', 'assert'):
            return [t['t']]
        if k == 'call':
            return [t['t']] if isinstance(t.get('t'), int) and t['t'] >= 0 else []
        return []

    def copy_chain(x):
        """x = use(move y) with y a whole local defined once: the tested value is y's"""
        ds = defs.get(x, [])
        return ds

    changed = False
    nd = None
    for T in range(n0):
        blk = blocks[T]
        if blk['cleanup'] or blk['term']['k'] != 'switch':
            continue
        op = blk['term']['op']
        key = 'm' if 'm' in op else ('c' if 'c' in op else None)
        if key is None or op[key]['p']:
            continue
        dl = op[key]['l']
        # the switch operand: a bool local, or `dl = discr(x)` computed in T itself
        x, kind = None, None
        dd = [(bb, k, si) for bb, k, si in defs.get(dl, [])]
        if len(dd) == 1 and dd[0][0] == T and dd[0][1] == 'stmt' and blk['stmts'][dd[0][2]]['rv']['k'] == 'discr':
            rv = blk['stmts'][dd[0][2]]['rv']
            if rv['k'] == 'discr' and not rv['pl']['p']:
                x, kind = rv['pl']['l'], 'variant'
                # besides the discriminant T may only set other plain locals from constants / copies (drop flags): those statements are
                # kept in the copies
                for s_ in blk['stmts']:
                    if s_['k'] != 'a' or s_['p']['p']:
                        x = None
                        break
                    if s_['p']['l'] == dl:
                        continue
                    if s_['rv']['k'] != 'use' or s_['p']['l'] == rv['pl']['l']:
                        x = None
                        break
        elif len(dd) >= 1 and not blk['stmts'] and d['locals'][dl]['ty'] == 'bool':
            x, kind = dl, 'bool'
        elif len(dd) == 1 and dd[0][0] == T and dd[0][1] == 'stmt' and d['locals'][dl]['ty'] == 'bool':
            # `if flag` compiled as `tmp = copy flag; switch tmp` in T, next to drop-flag bookkeeping
            rv = blk['stmts'][dd[0][2]]['rv']
            o_ = (rv.get('op') or {}).get('c') or (rv.get('op') or {}).get('m') if rv['k'] == 'use' else None
            if o_ is not None and not o_['p'] and d['locals'][o_['l']]['ty'] == 'bool' and all(
                    s_['k'] == 'a' and not s_['p']['p'] and s_['p']['l'] != o_['l'] and s_['rv']['k'] in ('use', 'discr') for s_ in blk['stmts']):
                x, kind = o_['l'], 'bool'
        if x is None:
            continue
        # follow a copy made on the way (`x = move y` right before): handled by treating y's defs when x has one copy-def
        xdefs = defs.get(x, [])
        if len(xdefs) == 1 and xdefs[0][1] == 'stmt':
            s = blocks[xdefs[0][0]]['stmts'][xdefs[0][2]]
            if s['rv']['k'] == 'use' and ('m' in s['rv']['op'] or 'c' in s['rv']['op']):
                o = s['rv']['op'].get('m') or s['rv']['op'].get('c')
                if not o['p'] and len(defs.get(o['l'], [])) >= 2:
                    # values come from y; the copy block lies inside the region
                    xdefs = defs[o['l']]
        if len(xdefs) < 2:
            continue
        vals = []
        for bb, k, si in xdefs:
            v = _known_value_of_def(d, blocks[bb]['stmts'][si] if k == 'stmt' else blocks[bb]['term'])
            vals.append(v)
        # definitions with a known value are threaded to the arm they must take; the others keep the original switch
        if not any(v is not None and v[0] == kind for v in vals):
            continue
        if not all(v is not None and v[0] == kind for v in vals):
            # a mix of known and unknown definitions: only for values that come out of spliced code (a closure / helper body that was written
            # into this function); a flag that the function itself folds a verdict into is left alone - the rules read such flags as written
            if not all(blocks[b2].get('from_body') for (b2, _k2, _s2) in xdefs):
                continue
        defblocks = {bb for bb, _, _ in xdefs}
        if T in defblocks:
            continue
        plans = []
        ok = True
        for (bb, k, si), v in zip(xdefs, vals):
            if v is None or v[0] != kind:
                continue
            # a later definition of x in the same block wins; only the last one per block counts
            if any(b2 == bb and ((k2 == 'term') or (k == 'stmt' and k2 == 'stmt' and s2 > si)) and (b2, k2, s2) != (bb, k, si) for b2, k2, s2 in xdefs):
                continue
            region, work = [], list(succs(blocks[bb]))
            seen = set()
            reaches_T = False
            while work:
                y = work.pop()
                if y == T:
                    reaches_T = True
                    continue
                if y in seen:
                    continue
                seen.add(y)
                if y in defblocks or blocks[y]['cleanup'] or blocks[y]['term']['k'] in ('call', 'return', 'unreachable', 'resume') or len(seen) > max_region:
                    ok = False
                    break
                region.append(y)
                work.extend(succs(blocks[y]))
            if not ok:
                break
            if not reaches_T:
                continue
            arm = None
            for val_, tg in blk['term']['arms']:
                if int(val_) == v[1]:
                    arm = tg
            if arm is None:
                arm = blk['term']['otherwise']
            plans.append((bb, region, arm))
        if not ok or not plans:
            continue
        if nd is None:
            nd = dict(d)
            nd['blocks'] = [dict(b) for b in blocks]
            blocks = nd['blocks']
        # a threaded definition of a pure temporary (used only on the way to this switch) no longer reaches the original switch:
        # give it a fresh name, so that a flow-insensitive reader of the remaining switch does not see its value any more
        base_local = xdefs[0] and None
        def_locals = set()
        for (b2, k2, s2) in xdefs:
            if k2 == 'stmt':
                def_locals.add(blocks[b2]['stmts'][s2]['p']['l'])
        if len(def_locals) == 1:
            y = next(iter(def_locals))
            allowed = {T}
            for _bb, region, _arm in plans:
                allowed |= set(region) | {_bb}
            ub_y = _use_blocks(nd if nd is not None else d, y)
            ub_x = _use_blocks(nd if nd is not None else d, x) if x != y else set()
            if ub_y <= allowed and ub_x <= allowed:
                rename_defs = [(b2, s2) for (b2, k2, s2), v in zip(xdefs, vals) if k2 == 'stmt' and v is not None and v[0] == kind and any(p_[0] == b2 for p_ in plans)]
            else:
                rename_defs = []
        else:
            rename_defs = []
        for bb, region, arm in plans:
            base = len(blocks)
            m = {y: base + i for i, y in enumerate(region)}
            m[T] = base + len(region)

            def retarget(t):
                t = copy.deepcopy(t)
                for kk in ('t', 'otherwise'):
                    if kk in t and isinstance(t[kk], int) and t[kk] in m:
                        t[kk] = m[t[kk]]
                if 'arms' in t:
                    t['arms'] = [[v_, m.get(tg, tg)] for v_, tg in t['arms']]
                return t
            for y in region:
                nb = dict(blocks[y])
                nb['term'] = retarget(blocks[y]['term'])
                nb['dup_of'] = y
                blocks.append(nb)
            tb = dict(blocks[T])
            if kind == 'variant':
                tb['stmts'] = [s_ for s_ in tb['stmts'] if s_['p']['l'] != dl]  # the copy does not test anything: no second definition of the discriminant temporary
            tb['term'] = {'k': 'goto', 't': arm}
            tb['dup_of'] = T
            blocks.append(tb)
            blocks[bb] = dict(blocks[bb], term=retarget(blocks[bb]['term']))
        for b2, s2 in rename_defs:
            nd['locals'] = list(nd['locals']) if nd['locals'] is d['locals'] else nd['locals']
            nd['locals'].append(dict(nd['locals'][blocks[b2]['stmts'][s2]['p']['l']]))
            st = list(blocks[b2]['stmts'])
            st[s2] = dict(st[s2], p={'l': len(nd['locals']) - 1, 'p': []})
            blocks[b2] = dict(blocks[b2], stmts=st)
        changed = True
    return (nd if changed else d), changed


# ------------------------------------------------------------------------------------------------------------
# de-sugaring of closure-taking iterator consumers into explicit loops. `for x in it { f(x) }` and `it.for_each(f)`,
# a search loop with `break` and `it.any(p)` / `it.find(p)`, a push loop and `v.extend(it.filter(p))` are the same
# program; the rules are written for the loop shape (Iterator::next, its Some / None edges, the calls in the body).
# In the normalised view the consumers below are replaced by that loop, with the closure body spliced in:
#   for_each, try_for_each, any, all, find, Extend::extend (onto Vec / BinaryHeap / HashSet), each optionally fed by one
#   `filter(pred)` whose only use is this consumer. Nothing else is touched; a consumer that does not fit is left as a call.
# ------------------------------------------------------------------------------------------------------------

def _single_def(d, local):
    """(bb, 'stmt', si) / (bb, 'term', None) if `local` (whole) is defined exactly once, else None"""
    found = []
    for bb, blk in enumerate(d['blocks']):
        if blk['cleanup']:
            continue
        for si, s in enumerate(blk['stmts']):
            if s['k'] == 'a' and s['p']['l'] == local and not s['p']['p']:
                found.append((bb, 'stmt', si))
        t = blk['term']
        if t['k'] == 'call' and t['dest']['l'] == local and not t['dest']['p']:
            found.append((bb, 'term', None))
    return found[0] if len(found) == 1 else None


def _use_blocks(d, local):
    """blocks in which `local` is read"""
    out = set()

    def place(p, bb):
        if p['l'] == local:
            out.add(bb)

    def op(o, bb):
        for k in ('m', 'c'):
            if k in o:
                place(o[k], bb)
    for bb, blk in enumerate(d['blocks']):
        if blk['cleanup']:
            continue
        for s_ in blk['stmts']:
            if s_['k'] != 'a':
                continue
            rv = s_['rv']
            for kk in ('op', 'a', 'b'):
                if kk in rv:
                    op(rv[kk], bb)
            for o in rv.get('ops', []):
                op(o, bb)
            if 'pl' in rv:
                place(rv['pl'], bb)
            if s_['p']['p'] and s_['p']['l'] == local:
                out.add(bb)
        t = blk['term']
        for o in t.get('args', []):
            op(o, bb)
        for kk in ('op', 'cond'):
            if kk in t:
                op(t[kk], bb)
        if t['k'] == 'drop' and t['pl']['l'] == local:
            out.add(bb)
        if t['k'] == 'call' and 'indirect' in t['f']:
            op(t['f']['indirect'], bb)
    return out


def _uses(d, local):
    n = 0

    def place(p):
        nonlocal n
        if p['l'] == local:
            n += 1

    def op(o):
        for k in ('m', 'c'):
            if k in o:
                place(o[k])
    for blk in d['blocks']:
        if blk['cleanup']:
            continue
        for s in blk['stmts']:
            if s['k'] != 'a':
                continue
            rv = s['rv']
            for kk in ('op', 'a', 'b'):
                if kk in rv:
                    op(rv[kk])
            for o in rv.get('ops', []):
                op(o)
            if 'pl' in rv:
                place(rv['pl'])
        t = blk['term']
        for o in t.get('args', []):
            op(o)
        for kk in ('op', 'cond'):
            if kk in t:
                op(t[kk])
        if t['k'] == 'drop':
            pass
    return n


def _callable_of(F, d, operand):
    """the local body an operand denotes: a closure built in this body (returns (body, 'closure')) or a fn item (returns (body, 'fn'))"""
    if 'k' in operand and isinstance(operand['k'], dict) and 'fn' in operand['k']:
        b = F.bodies.get(operand['k']['fn'].get('id'))
        return (b, 'fn') if b is not None else (None, None)
    pl = operand.get('m') or operand.get('c')
    if pl is None or pl['p']:
        return None, None
    df = _single_def(d, pl['l'])
    if df is None or df[1] != 'stmt':
        return None, None
    rv = d['blocks'][df[0]]['stmts'][df[2]]['rv']
    if rv['k'] == 'aggr' and rv['ak'].get('closure') in F.bodies:
        return F.bodies[rv['ak']['closure']], 'closure'
    if rv['k'] == 'use':
        return _callable_of(F, d, rv['op'])
    return None, None


CONSUMERS = ('for_each', 'try_for_each', 'any', 'all', 'find')


def desugar_dict(F, d, flat_cache=None):
    nd = None
    for bb in range(len(d['blocks'])):
        blk = (nd or d)['blocks'][bb]
        t = blk['term']
        if blk['cleanup'] or t['k'] != 'call' or 'fn' not in t['f'] or not isinstance(t.get('t'), int) or t['t'] < 0:
            continue
        fn = t['f']['fn']
        tr = fn.get('trait') or ''
        name = fn.get('name')
        is_cons = tr == 'std::iter::Iterator' and name in CONSUMERS and len(t['args']) == 2
        is_ext = tr == 'std::iter::Extend' and name == 'extend' and len(t['args']) == 2
        # `it.map(f).collect()` / `it.filter_map(f).collect()` with a closure that has side effects: the loop that runs f on every item
        # (what is collected is an opaque value)
        is_coll = tr == 'std::iter::Iterator' and name == 'collect' and len(t['args']) == 1
        up_bb = None
        if is_coll:
            cur = nd or d
            cp = t['args'][0].get('m') or t['args'][0].get('c')
            udef = _single_def(cur, cp['l']) if cp is not None and not cp['p'] else None
            if udef is None or udef[1] != 'term' or _uses(cur, cp['l']) > 2:
                continue
            ut = cur['blocks'][udef[0]]['term']
            ufn = ut['f'].get('fn', {})
            if not (ufn.get('trait') == 'std::iter::Iterator' and ufn.get('name') in ('map', 'filter_map') and len(ut['args']) == 2):
                continue
            ucb, ukind = _callable_of(F, cur, ut['args'][1])
            if ucb is None or not _mutates(ucb.d):
                continue
            up_bb = udef[0]
        if not (is_cons or is_ext or is_coll):
            continue
        cur = nd or d
        if is_coll:
            cb, kind = ucb, ukind
            it_op = ut['args'][0]
            push_fn = None
            name = 'for_each'
            t = dict(t, args=[it_op, ut['args'][1]])
        elif is_cons:
            cb, kind = _callable_of(F, cur, t['args'][1])
            if cb is None:
                continue
            it_op = t['args'][0]
            push_fn = None
        else:
            st = (fn.get('self_ty') or '')
            head = st.split('<')[0]
            push_fn = {'std::vec::Vec': ('std::vec::Vec::<T, A>::push', 'push'), 'std::collections::BinaryHeap': ('std::collections::BinaryHeap::<T, A>::push', 'push'),
                       'std::collections::HashSet': ('std::collections::HashSet::<T, S>::insert', 'insert')}.get(head)
            if push_fn is None:
                continue
            cb, kind = None, None
            it_op = t['args'][1]
        ip = it_op.get('m') or it_op.get('c')
        if ip is None or ip['p']:
            continue
        # an upstream `filter(pred)` whose only use is this consumer
        pred = None
        src_op = it_op
        fdef = _single_def(cur, ip['l'])
        by_ref = False
        if fdef is not None and fdef[1] == 'stmt':
            # `&mut iter` taken for a by-reference consumer (any / all / find): look at the referenced local
            rv = cur['blocks'][fdef[0]]['stmts'][fdef[2]]['rv']
            if rv['k'] == 'ref' and not rv['pl']['p']:
                by_ref = True
                inner_def = _single_def(cur, rv['pl']['l'])
                base_local = rv['pl']['l']
            else:
                inner_def, base_local = None, None
        else:
            inner_def, base_local = fdef, ip['l']
        filt_bb = None
        if inner_def is not None and inner_def[1] == 'term':
            ft = cur['blocks'][inner_def[0]]['term']
            ffn = ft['f'].get('fn', {})
            if ffn.get('trait') == 'std::iter::Iterator' and ffn.get('name') == 'filter' and len(ft['args']) == 2 and _uses(cur, base_local) <= 2:
                pb, pkind = _callable_of(F, cur, ft['args'][1])
                if pb is not None:
                    pred = (pb, pkind, ft['args'][1])
                    filt_bb = inner_def[0]
                    src_op = ft['args'][0]
        if nd is None:
            nd = dict(d)
            nd['locals'] = list(d['locals'])
            nd['blocks'] = [dict(b_, stmts=list(b_['stmts'])) for b_ in d['blocks']]
        B = nd['blocks']
        L = nd['locals']
        ln = t.get('fl', blk.get('tln', 0))

        def new_local(ty):
            L.append({'ty': ty})
            return len(L) - 1

        def new_block(stmts, term):
            B.append({'cleanup': False, 'stmts': stmts, 'term': term, 'tln': ln, 'synth': True, 'from_body': '<synthesised>'})
            return len(B) - 1

        def assign(l, rv):
            return {'k': 'a', 'p': {'l': l, 'p': []}, 'rv': rv, 'ln': ln, 'synth': True}

        def call_callable(cbody, ckind, cop, arg_ops, dest_local, target):
            """a block that calls the closure / fn with the given operands and continues at `target`; returns block index"""
            cd = cbody.d
            if flat_cache is not None and cbody.id in flat_cache:
                cd = flat_cache[cbody.id]
            stmts = []
            assigns = []
            if ckind == 'closure':
                envty = cd['locals'][1]['ty'] if len(cd['locals']) > 1 else ''
                cpl = cop.get('m') or cop.get('c')
                if envty.startswith('&'):
                    r = new_local(envty)
                    stmts.append(assign(r, {'k': 'ref', 'mut': envty.startswith('&mut'), 'pl': {'l': cpl['l'], 'p': cpl['p']}}))
                    assigns.append((1, {'m': {'l': r, 'p': []}}))
                else:
                    assigns.append((1, cop))
                for i, a in enumerate(arg_ops):
                    assigns.append((2 + i, a))
            else:
                for i, a in enumerate(arg_ops):
                    assigns.append((1 + i, a))
            idx = new_block(stmts, {'k': 'call', 'f': {'fn': {'path': cbody.d.get('path', ''), 'id': cbody.id, 'krate': cbody.crate, 'local': True, 'name': cbody.name, 'gargs': []}},
                                    'args': [], 'dest': {'l': dest_local, 'p': []}, 'dest_ty': cd['locals'][0]['ty'], 't': target, 'uw': -2, 'fl': ln, 'fx': False})
            _splice(nd, idx, cd, cbody.id, assigns, {})
            return idx
        dest, T = t['dest'], t['t']
        # iterator reference handed to next()
        sp = src_op.get('m') or src_op.get('c')
        if sp is None:
            continue
        pre = B[bb]['stmts']
        if is_ext:
            it_local = new_local('_')
            conv = new_block([], None)  # filled below: IntoIterator::into_iter(arg) -> it_local
        if by_ref and pred is None:
            r_local = ip['l']
        else:
            r_local = new_local('&mut _')
        n_local = new_local('std::option::Option<_>')
        d_local = new_local('isize')
        item = new_local('_')
        res_ty = t.get('dest_ty', '')
        H = new_block([], None)
        S = new_block([assign(d_local, {'k': 'discr', 'pl': {'l': n_local, 'p': []}, 'ty': 'std::option::Option<_>'})], None)
        Bk = new_block([assign(item, {'k': 'use', 'op': {'m': {'l': n_local, 'p': [{'d': 'Some', 'i': 1}, {'f': 0, 'n': '0', 'a': 'std::option::Option'}]}}})], None)
        B[H]['term'] = {'k': 'call', 'f': {'fn': {'path': 'std::iter::Iterator::next', 'id': 'core::iter::traits::iterator::Iterator::next', 'krate': 'core', 'local': False, 'name': 'next',
                                                 'gargs': ['_'], 'trait': 'std::iter::Iterator', 'self_ty': '_'}},
                        'args': [{'m': {'l': r_local, 'p': []}}], 'dest': {'l': n_local, 'p': []}, 'dest_ty': 'std::option::Option<_>', 't': S, 'uw': -2, 'fl': ln, 'fx': False, 'synth': True}
        # exits
        unit = {'k': {'ty': '()', 'v': '()'}}
        true_ = {'k': {'ty': 'bool', 'int': '1', 'v': 'true'}}
        false_ = {'k': {'ty': 'bool', 'int': '0', 'v': 'false'}}

        def exit_block(stmts):
            return new_block(stmts, {'k': 'goto', 't': T})
        dl = dest['l'] if not dest['p'] else None
        if dl is None:
            continue
        if is_coll:
            X = exit_block([assign(dl, {'k': 'use', 'op': {'k': {'ty': '_', 'v': '<collected>'}}})])
        elif is_ext or name == 'for_each':
            X = exit_block([assign(dl, {'k': 'use', 'op': unit})])
        elif name == 'try_for_each':
            if res_ty.startswith('std::result::Result'):
                X = exit_block([assign(dl, {'k': 'aggr', 'ak': {'adt': 'std::result::Result', 'variant': 'Ok', 'vi': 0}, 'ops': [unit]})])
            elif res_ty.startswith('std::option::Option'):
                X = exit_block([assign(dl, {'k': 'aggr', 'ak': {'adt': 'std::option::Option', 'variant': 'Some', 'vi': 1}, 'ops': [unit]})])
            else:
                X = exit_block([assign(dl, {'k': 'aggr', 'ak': {'adt': 'std::ops::ControlFlow', 'variant': 'Continue', 'vi': 0}, 'ops': [unit]})])
        elif name == 'any':
            X = exit_block([assign(dl, {'k': 'use', 'op': false_})])
        elif name == 'all':
            X = exit_block([assign(dl, {'k': 'use', 'op': true_})])
        else:  # find
            X = exit_block([assign(dl, {'k': 'aggr', 'ak': {'adt': 'std::option::Option', 'variant': 'None', 'vi': 0}, 'ops': []})])
        B[S]['term'] = {'k': 'switch', 'op': {'m': {'l': d_local, 'p': []}}, 'arms': [['0', X]], 'otherwise': Bk}
        # body
        item_op = {'m': {'l': item, 'p': []}}
        after_pred = None
        if is_ext:
            pd = new_local('()')
            body_blk = new_block([], {'k': 'call', 'f': {'fn': {'path': push_fn[0], 'id': push_fn[0], 'krate': 'alloc', 'local': False, 'name': push_fn[1], 'gargs': ['_'],
                                                                   'impl_self': (fn.get('self_ty') or '').split('<')[0] + '<T>'}},
                                       'args': [t['args'][0], item_op], 'dest': {'l': pd, 'p': []}, 'dest_ty': '()', 't': H, 'uw': -2, 'fl': ln, 'fx': False, 'synth': True})
        else:
            res = new_local(cb.d['locals'][0]['ty'])
            if name == 'find':
                ir = new_local('&_')
                arg = {'m': {'l': ir, 'p': []}}
                prelude = [assign(ir, {'k': 'ref', 'mut': False, 'pl': {'l': item, 'p': []}})]
            else:
                arg = item_op
                prelude = []
            # continuation after the closure call
            if name == 'for_each':
                cont = H
            elif name == 'try_for_each':
                dd = new_local('isize')
                ok_idx = 1 if res_ty.startswith('std::option::Option') else 0
                brk = new_block([assign(dl, {'k': 'use', 'op': {'m': {'l': res, 'p': []}}})], {'k': 'goto', 't': T})
                cont = new_block([assign(dd, {'k': 'discr', 'pl': {'l': res, 'p': []}, 'ty': res_ty or cb.d['locals'][0]['ty']})],
                                 {'k': 'switch', 'op': {'m': {'l': dd, 'p': []}}, 'arms': [[str(ok_idx), H]], 'otherwise': brk})
            elif name == 'any':
                hit = new_block([assign(dl, {'k': 'use', 'op': true_})], {'k': 'goto', 't': T})
                cont = new_block([], {'k': 'switch', 'op': {'m': {'l': res, 'p': []}}, 'arms': [['0', H]], 'otherwise': hit})
            elif name == 'all':
                miss = new_block([assign(dl, {'k': 'use', 'op': false_})], {'k': 'goto', 't': T})
                cont = new_block([], {'k': 'switch', 'op': {'m': {'l': res, 'p': []}}, 'arms': [['0', miss]], 'otherwise': H})
            else:  # find
                hit = new_block([assign(dl, {'k': 'aggr', 'ak': {'adt': 'std::option::Option', 'variant': 'Some', 'vi': 1}, 'ops': [item_op]})], {'k': 'goto', 't': T})
                cont = new_block([], {'k': 'switch', 'op': {'m': {'l': res, 'p': []}}, 'arms': [['0', H]], 'otherwise': hit})
            call_blk = call_callable(cb, kind, t['args'][1], [arg], res, cont)
            B[call_blk]['stmts'] = prelude + B[call_blk]['stmts']
            body_blk = call_blk
        if pred is not None:
            pb, pkind, pop = pred
            pres = new_local('bool')
            pr = new_local('&_')
            sw = new_block([], {'k': 'switch', 'op': {'m': {'l': pres, 'p': []}}, 'arms': [['0', H]], 'otherwise': body_blk})
            pcall = call_callable(pb, pkind, pop, [{'m': {'l': pr, 'p': []}}], pres, sw)
            B[pcall]['stmts'] = [assign(pr, {'k': 'ref', 'mut': False, 'pl': {'l': item, 'p': []}})] + B[pcall]['stmts']
            B[Bk]['term'] = {'k': 'goto', 't': pcall}
            # the filter call itself is dropped: its source iterator is consumed by the loop
            ft = B[filt_bb]['term']
            B[filt_bb] = dict(B[filt_bb], term={'k': 'goto', 't': ft['t']})
        else:
            B[Bk]['term'] = {'k': 'goto', 't': body_blk}
        # entry
        if is_ext:
            B[conv]['term'] = {'k': 'call', 'f': {'fn': {'path': 'std::iter::IntoIterator::into_iter', 'id': 'core::iter::traits::collect::IntoIterator::into_iter', 'krate': 'core', 'local': False,
                                                        'name': 'into_iter', 'gargs': ['_'], 'trait': 'std::iter::IntoIterator', 'self_ty': '_'}},
                               'args': [src_op], 'dest': {'l': it_local, 'p': []}, 'dest_ty': '_', 't': H, 'uw': -2, 'fl': ln, 'fx': False, 'synth': True}
            B[conv]['stmts'] = []
            # next() takes &mut it_local
            B[H]['stmts'] = [assign(r_local, {'k': 'ref', 'mut': True, 'pl': {'l': it_local, 'p': []}})]
            B[bb] = dict(B[bb], term={'k': 'goto', 't': conv})
        else:
            if not (by_ref and pred is None):
                B[H]['stmts'] = [assign(r_local, {'k': 'ref', 'mut': True, 'pl': {'l': sp['l'], 'p': sp['p']}})]
            B[bb] = dict(B[bb], term={'k': 'goto', 't': H})
            if is_coll:  # the adaptor call itself is dropped: its source iterator is consumed by the loop
                B[up_bb] = dict(B[up_bb], term={'k': 'goto', 't': B[up_bb]['term']['t']})
    return (nd if nd is not None else d), nd is not None


# ------------------------------------------------------------------------------------------------------------
# Option / Result combinators that take a closure and *choose* between the payload and the closure's answer are written as
# the `match` they stand for (the closure body spliced into its arm): `r.unwrap_or_else(|e| { record(e); false })` is
# `match r { Ok(v) => v, Err(e) => { record(e); false } }`. Covered: unwrap_or_else, or_else, and_then, map_or, map_or_else
# (on Option and Result). `map`, `map_err`, `then` stay calls: the rules know them as value-preserving adaptors.
# ------------------------------------------------------------------------------------------------------------

def _mutates(cd):
    """does this (closure) body write through a reference or hand a `&mut` to a call?"""
    for blk in cd['blocks']:
        if blk['cleanup']:
            continue
        for s_ in blk['stmts']:
            if s_['k'] == 'a' and s_['p']['p']:
                return True
        t = blk['term']
        if t['k'] == 'call':
            for a in t.get('args', []):
                pl = a.get('m') or a.get('c')
                if pl is not None and not pl['p'] and cd['locals'][pl['l']]['ty'].startswith('&mut'):
                    return True
    return False


COMBINATORS = ('unwrap_or_else', 'or_else', 'and_then', 'map_or', 'map_or_else', 'map', 'map_err', 'is_some_and', 'is_none_or', 'is_ok_and', 'is_err_and', 'filter')


def desugar_combinators_dict(F, d):
    nd = None
    for bb in range(len(d['blocks'])):
        blk = (nd or d)['blocks'][bb]
        t = blk['term']
        if blk['cleanup'] or t['k'] != 'call' or 'fn' not in t['f'] or not isinstance(t.get('t'), int) or t['t'] < 0:
            continue
        fn = t['f']['fn']
        name = fn.get('name')
        head = (fn.get('impl_self') or '').split('<')[0]
        if name == 'branch' and (fn.get('trait') or '') == 'std::ops::Try' and len(t['args']) == 1 and not t['dest']['p']:
            # `x?`: the ControlFlow that Try::branch builds, written out, so that the variant of x decides the way on
            st_ = (fn.get('self_ty') or '')
            h_ = st_.split('<')[0]
            ap = t['args'][0].get('m') or t['args'][0].get('c')
            if h_ in ('std::option::Option', 'std::result::Result') and ap is not None and not ap['p']:
                if nd is None:
                    nd = dict(d)
                    nd['locals'] = list(d['locals'])
                    nd['blocks'] = [dict(b_, stmts=list(b_['stmts'])) for b_ in d['blocks']]
                B, L = nd['blocks'], nd['locals']
                ln = t.get('fl', blk.get('tln', 0))
                is_r = h_.endswith('Result')
                adt_ = h_
                pv, pi = ('Ok', 0) if is_r else ('Some', 1)
                L.append({'ty': 'isize'})
                dsc = len(L) - 1
                L.append({'ty': st_})
                resid = len(L) - 1

                def mk(stmts, term):
                    B.append({'cleanup': False, 'stmts': stmts, 'term': term, 'tln': ln, 'synth': True, 'from_body': '<synthesised>'})
                    return len(B) - 1

                def asg(l, rv):
                    return {'k': 'a', 'p': {'l': l, 'p': []}, 'rv': rv, 'ln': ln, 'synth': True}
                pay = {'m': {'l': ap['l'], 'p': [{'d': pv, 'i': pi}, {'f': 0, 'n': '0', 'a': adt_}]}}
                pos = mk([asg(t['dest']['l'], {'k': 'aggr', 'ak': {'adt': 'std::ops::ControlFlow', 'variant': 'Continue', 'vi': 0}, 'ops': [pay]})], {'k': 'goto', 't': t['t']})
                if is_r:
                    rbuild = asg(resid, {'k': 'aggr', 'ak': {'adt': adt_, 'variant': 'Err', 'vi': 1}, 'ops': [{'m': {'l': ap['l'], 'p': [{'d': 'Err', 'i': 1}, {'f': 0, 'n': '0', 'a': adt_}]}}]})
                else:
                    rbuild = asg(resid, {'k': 'aggr', 'ak': {'adt': adt_, 'variant': 'None', 'vi': 0}, 'ops': []})
                neg = mk([rbuild, asg(t['dest']['l'], {'k': 'aggr', 'ak': {'adt': 'std::ops::ControlFlow', 'variant': 'Break', 'vi': 1}, 'ops': [{'m': {'l': resid, 'p': []}}]})], {'k': 'goto', 't': t['t']})
                B[bb] = dict(B[bb], stmts=B[bb]['stmts'] + [asg(dsc, {'k': 'discr', 'pl': {'l': ap['l'], 'p': []}, 'ty': adt_ + '<_>'})],
                             term={'k': 'switch', 'op': {'m': {'l': dsc, 'p': []}}, 'arms': [[str(pi), pos]], 'otherwise': neg})
            continue
        if head == 'bool' and name in ('then_some', 'then') and len(t['args']) == 2 and not t['dest']['p']:
            # `cond.then_some(v)` / `cond.then(|| v)`: Some under cond, None otherwise
            cur = nd or d
            bp = t['args'][0].get('m') or t['args'][0].get('c')
            fcb_, fk_ = (None, None)
            if name == 'then':
                fcb_, fk_ = _callable_of(F, cur, t['args'][1])
                if fcb_ is None:
                    continue
            if bp is None or bp['p']:
                continue
            if nd is None:
                nd = dict(d)
                nd['locals'] = list(d['locals'])
                nd['blocks'] = [dict(b_, stmts=list(b_['stmts'])) for b_ in d['blocks']]
            B, L = nd['blocks'], nd['locals']
            ln = t.get('fl', blk.get('tln', 0))
            T_, dl_ = t['t'], t['dest']['l']

            def mk2(stmts, term):
                B.append({'cleanup': False, 'stmts': stmts, 'term': term, 'tln': ln, 'synth': True, 'from_body': '<synthesised>'})
                return len(B) - 1

            def asg2(l, rv):
                return {'k': 'a', 'p': {'l': l, 'p': []}, 'rv': rv, 'ln': ln, 'synth': True}
            none_b = mk2([asg2(dl_, {'k': 'aggr', 'ak': {'adt': 'std::option::Option', 'variant': 'None', 'vi': 0}, 'ops': []})], {'k': 'goto', 't': T_})
            if name == 'then_some':
                some_b = mk2([asg2(dl_, {'k': 'aggr', 'ak': {'adt': 'std::option::Option', 'variant': 'Some', 'vi': 1}, 'ops': [t['args'][1]]})], {'k': 'goto', 't': T_})
            else:
                L.append({'ty': fcb_.d['locals'][0]['ty']})
                tmp_ = len(L) - 1
                wrap_ = mk2([asg2(dl_, {'k': 'aggr', 'ak': {'adt': 'std::option::Option', 'variant': 'Some', 'vi': 1}, 'ops': [{'m': {'l': tmp_, 'p': []}}]})], {'k': 'goto', 't': T_})
                stm_, asn_ = [], []
                if fk_ == 'closure':
                    envty = fcb_.d['locals'][1]['ty'] if len(fcb_.d['locals']) > 1 else ''
                    cpl = t['args'][1].get('m') or t['args'][1].get('c')
                    if envty.startswith('&'):
                        L.append({'ty': envty})
                        r_ = len(L) - 1
                        stm_.append(asg2(r_, {'k': 'ref', 'mut': envty.startswith('&mut'), 'pl': {'l': cpl['l'], 'p': cpl['p']}}))
                        asn_.append((1, {'m': {'l': r_, 'p': []}}))
                    else:
                        asn_.append((1, t['args'][1]))
                some_b = mk2(stm_, {'k': 'call', 'f': {'fn': {'path': fcb_.d.get('path', ''), 'id': fcb_.id, 'krate': fcb_.crate, 'local': True, 'name': fcb_.name, 'gargs': []}},
                                    'args': [], 'dest': {'l': tmp_, 'p': []}, 'dest_ty': fcb_.d['locals'][0]['ty'], 't': wrap_, 'uw': -2, 'fl': ln, 'fx': False})
                _splice(nd, some_b, fcb_.d, fcb_.id, asn_, {})
            B[bb] = dict(B[bb], term={'k': 'switch', 'op': {'m': {'l': bp['l'], 'p': []}}, 'arms': [['0', none_b]], 'otherwise': some_b})
            continue
        if name not in COMBINATORS or head not in ('std::option::Option', 'std::result::Result') or t['dest']['p']:
            continue
        cur = nd or d
        is_res = head.endswith('Result')
        args = t['args']
        sp = args[0].get('m') or args[0].get('c')
        if sp is None or sp['p']:
            continue
        # closures involved
        if name == 'map_or':
            if len(args) != 3:
                continue
            default_op, fop, dop = args[1], args[2], None
        elif name == 'map_or_else':
            if len(args) != 3:
                continue
            default_op, fop, dop = None, args[2], args[1]
        else:
            if len(args) != 2:
                continue
            default_op, fop, dop = None, args[1], None
        fcb, fkind = _callable_of(F, cur, fop)
        if fcb is None:
            continue
        if name in ('map', 'map_err') and not _mutates(fcb.d):
            continue  # only a closure with side effects on its surroundings; a pure projection / conversion stays a call: the rules know `map` / `map_err` as value-preserving adaptors
        dcb, dkind = (None, None)
        if dop is not None:
            dcb, dkind = _callable_of(F, cur, dop)
            if dcb is None:
                continue
        if nd is None:
            nd = dict(d)
            nd['locals'] = list(d['locals'])
            nd['blocks'] = [dict(b_, stmts=list(b_['stmts'])) for b_ in d['blocks']]
        B, L = nd['blocks'], nd['locals']
        ln = t.get('fl', blk.get('tln', 0))
        T, dl = t['t'], t['dest']['l']
        adt = 'std::result::Result' if is_res else 'std::option::Option'
        pos_name, pos_vi = ('Ok', 0) if is_res else ('Some', 1)
        neg_name, neg_vi = ('Err', 1) if is_res else ('None', 0)

        def new_local(ty):
            L.append({'ty': ty})
            return len(L) - 1

        def new_block(stmts, term):
            B.append({'cleanup': False, 'stmts': stmts, 'term': term, 'tln': ln, 'synth': True, 'from_body': '<synthesised>'})
            return len(B) - 1

        def assign(l, rv):
            return {'k': 'a', 'p': {'l': l, 'p': []}, 'rv': rv, 'ln': ln, 'synth': True}

        def payload(vname, vi):
            return {'m': {'l': sp['l'], 'p': [{'d': vname, 'i': vi}, {'f': 0, 'n': '0', 'a': adt}]}}

        def call_into(cbody, ckind, cop, arg_ops, dest_local, target):
            cd = cbody.d
            stmts, assigns = [], []
            if ckind == 'closure':
                envty = cd['locals'][1]['ty'] if len(cd['locals']) > 1 else ''
                cpl = cop.get('m') or cop.get('c')
                if envty.startswith('&'):
                    r = new_local(envty)
                    stmts.append(assign(r, {'k': 'ref', 'mut': envty.startswith('&mut'), 'pl': {'l': cpl['l'], 'p': cpl['p']}}))
                    assigns.append((1, {'m': {'l': r, 'p': []}}))
                else:
                    assigns.append((1, cop))
                for i, a in enumerate(arg_ops):
                    assigns.append((2 + i, a))
            else:
                for i, a in enumerate(arg_ops):
                    assigns.append((1 + i, a))
            idx = new_block(stmts, {'k': 'call', 'f': {'fn': {'path': cbody.d.get('path', ''), 'id': cbody.id, 'krate': cbody.crate, 'local': True, 'name': cbody.name, 'gargs': []}},
                                    'args': [], 'dest': {'l': dest_local, 'p': []}, 'dest_ty': cd['locals'][0]['ty'], 't': target, 'uw': -2, 'fl': ln, 'fx': False})
            _splice(nd, idx, cd, cbody.id, assigns, {})
            return idx
        goto_T = {'k': 'goto', 't': T}
        if name == 'unwrap_or_else':
            pos = new_block([assign(dl, {'k': 'use', 'op': payload(pos_name, pos_vi)})], goto_T)
            neg = call_into(fcb, fkind, fop, [payload('Err', 1)] if is_res else [], dl, T)
        elif name == 'or_else':
            pos = new_block([assign(dl, {'k': 'aggr', 'ak': {'adt': adt, 'variant': pos_name, 'vi': pos_vi}, 'ops': [payload(pos_name, pos_vi)]})], goto_T)
            neg = call_into(fcb, fkind, fop, [payload('Err', 1)] if is_res else [], dl, T)
        elif name == 'and_then':
            pos = call_into(fcb, fkind, fop, [payload(pos_name, pos_vi)], dl, T)
            if is_res:
                neg = new_block([assign(dl, {'k': 'aggr', 'ak': {'adt': adt, 'variant': 'Err', 'vi': 1}, 'ops': [payload('Err', 1)]})], goto_T)
            else:
                neg = new_block([assign(dl, {'k': 'aggr', 'ak': {'adt': adt, 'variant': 'None', 'vi': 0}, 'ops': []})], goto_T)
        elif name == 'map_or':
            pos = call_into(fcb, fkind, fop, [payload(pos_name, pos_vi)], dl, T)
            neg = new_block([assign(dl, {'k': 'use', 'op': default_op})], goto_T)
        elif name == 'map_or_else':
            pos = call_into(fcb, fkind, fop, [payload(pos_name, pos_vi)], dl, T)
            neg = call_into(dcb, dkind, dop, [payload('Err', 1)] if is_res else [], dl, T)
        elif name == 'filter':
            if is_res:
                continue
            # Some(x) if pred(&x) => Some(x), otherwise None
            keep = new_local('bool')
            rf = new_local('&_')
            some_b = new_block([assign(dl, {'k': 'aggr', 'ak': {'adt': adt, 'variant': 'Some', 'vi': 1}, 'ops': [payload('Some', 1)]})], goto_T)
            none_b = new_block([assign(dl, {'k': 'aggr', 'ak': {'adt': adt, 'variant': 'None', 'vi': 0}, 'ops': []})], goto_T)
            sw = new_block([], {'k': 'switch', 'op': {'m': {'l': keep, 'p': []}}, 'arms': [['0', none_b]], 'otherwise': some_b})
            pos = call_into(fcb, fkind, fop, [{'m': {'l': rf, 'p': []}}], keep, sw)
            B[pos]['stmts'] = [assign(rf, {'k': 'ref', 'mut': False, 'pl': {'l': sp['l'], 'p': [{'d': 'Some', 'i': 1}, {'f': 0, 'n': '0', 'a': adt}]}})] + B[pos]['stmts']
            neg = new_block([assign(dl, {'k': 'aggr', 'ak': {'adt': adt, 'variant': 'None', 'vi': 0}, 'ops': []})], goto_T)
        elif name == 'map':
            tmp = new_local(fcb.d['locals'][0]['ty'])
            wrap = new_block([assign(dl, {'k': 'aggr', 'ak': {'adt': adt, 'variant': pos_name, 'vi': pos_vi}, 'ops': [{'m': {'l': tmp, 'p': []}}]})], goto_T)
            pos = call_into(fcb, fkind, fop, [payload(pos_name, pos_vi)], tmp, wrap)
            if is_res:
                neg = new_block([assign(dl, {'k': 'aggr', 'ak': {'adt': adt, 'variant': 'Err', 'vi': 1}, 'ops': [payload('Err', 1)]})], goto_T)
            else:
                neg = new_block([assign(dl, {'k': 'aggr', 'ak': {'adt': adt, 'variant': 'None', 'vi': 0}, 'ops': []})], goto_T)
        elif name == 'map_err':
            if not is_res:
                continue
            tmp = new_local(fcb.d['locals'][0]['ty'])
            wrap = new_block([assign(dl, {'k': 'aggr', 'ak': {'adt': adt, 'variant': 'Err', 'vi': 1}, 'ops': [{'m': {'l': tmp, 'p': []}}]})], goto_T)
            neg = call_into(fcb, fkind, fop, [payload('Err', 1)], tmp, wrap)
            pos = new_block([assign(dl, {'k': 'aggr', 'ak': {'adt': adt, 'variant': 'Ok', 'vi': 0}, 'ops': [payload('Ok', 0)]})], goto_T)
        else:  # is_some_and / is_none_or / is_ok_and / is_err_and: the predicate decides for one variant, a constant for the other
            true_ = {'k': {'ty': 'bool', 'int': '1', 'v': 'true'}}
            false_ = {'k': {'ty': 'bool', 'int': '0', 'v': 'false'}}
            if name in ('is_some_and', 'is_ok_and'):
                pos = call_into(fcb, fkind, fop, [payload(pos_name, pos_vi)], dl, T)
                neg = new_block([assign(dl, {'k': 'use', 'op': false_})], goto_T)
            elif name == 'is_none_or':
                pos = call_into(fcb, fkind, fop, [payload(pos_name, pos_vi)], dl, T)
                neg = new_block([assign(dl, {'k': 'use', 'op': true_})], goto_T)
            else:  # is_err_and
                neg = call_into(fcb, fkind, fop, [payload('Err', 1)], dl, T)
                pos = new_block([assign(dl, {'k': 'use', 'op': false_})], goto_T)
        dsc = new_local('isize')
        B[bb] = dict(B[bb], stmts=B[bb]['stmts'] + [assign(dsc, {'k': 'discr', 'pl': {'l': sp['l'], 'p': []}, 'ty': adt + '<_>'})],
                     term={'k': 'switch', 'op': {'m': {'l': dsc, 'p': []}}, 'arms': [[str(pos_vi), pos]], 'otherwise': neg})
    return (nd if nd is not None else d), nd is not None
