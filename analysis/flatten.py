"""Normalisation by inlining: a second *view* of the same program in which newly introduced private helper
functions are inlined into their callers (MIR-level inlining on the fact dictionaries).

Why: the rules examine the functions of pie's own decomposition (make-consistent, check, execute-and-schedule,
validate, add_edge, the searches, ...). Extracting a few statements of such a function into a new private helper
(or splitting it) does not change behaviour, but moves anchors out of the body a rule looks at. Inlining the
helper back gives a body of the shape the rules know. Inlining is semantics-preserving, so a rule set that is
sound on any program and passes on the inlined view has established its clauses for the program itself
(engine.run_views picks, per property, a view in which every obligation holds, if there is one).

What is inlined: a function of the analysed crates that is (1) not `pub`, (2) not a trait-impl method, (3) not in
the table PINNED below, (4) called only through statically resolved calls (never used as a value), (5) not part
of a recursion. PINNED lists the non-`pub` functions of the pinned tree: they are the decomposition the rules are
written against, so they are never inlined; the table is only a hint for this normalisation - if one of them is
renamed it is treated like a new helper in the inlined view, while the raw view still sees it unchanged.
"""
import copy
import re
from collections import defaultdict

from core import Body, Facts

CRATES = ('pie', 'pie_graph')

# non-`pub` functions of the pinned tree (crate, name) - the decomposition the rules know
PINNED = {
    'pie': {'hash', 'hash_file', 'hash_directory', 'new', 'metadata', 'exists', 'writeln', 'write', 'write_nl', 'indent', 'unindent', 'write_indentation', 'flush',
            'ensure_inserted_and_correct_type', 'make_task_consistent', 'check_task', 'execute_and_schedule', 'try_schedule_task_by_resource_dependency', 'execute',
            'execute_obj', 'require_scheduled_now', 'is_not_empty', 'add', 'pop', 'pop_least_task_with_dependency_from', 'sort_by_dependencies', 'validate_write'},
    'pie_graph': {'new', 'dfs_forward', 'dfs_backward', 'reorder_nodes', 'get_node', 'clear'},
}
# pinned helpers are identified by (name, type they belong to); a *new* function that happens to reuse such a name on
# another type (e.g. a new `TopDownContext::execute`) is still a helper
PINNED_OWNERS = {
    ('pie', 'execute'): ('BottomUpContext',), ('pie', 'new'): ('OpenRead', 'Queue'), ('pie', 'add'): ('Queue',), ('pie', 'pop'): ('Queue',),
    ('pie', 'write'): ('WritingTracker',), ('pie', 'flush'): ('WritingTracker',), ('pie', 'hash'): ('HashChecker',), ('pie', 'make_task_consistent'): ('TopDownContext', 'BottomUpContext'),
    ('pie_graph', 'new'): ('NodeInfo',), ('pie_graph', 'clear'): ('StackVisitedScratchSpace',),
}


def _is_pinned(b):
    if b.name not in PINNED.get(b.crate, ()):
        return False
    owners = PINNED_OWNERS.get((b.crate, b.name))
    if owners is None:
        return True
    return any(o in (b.impl_self or '') for o in owners)


def _fn_values(F):
    """ids of functions used as a value (fn item constants in operands), which therefore cannot be removed/inlined away"""
    out = set()

    def op(o):
        if isinstance(o, dict) and 'k' in o and isinstance(o['k'], dict) and 'fn' in o['k']:
            i = o['k']['fn'].get('id')
            if i:
                out.add(i)
    for b in F.bodies.values():
        for blk in b.blocks:
            for s in blk['stmts']:
                rv = s.get('rv', {})
                for kk in ('op', 'a', 'b'):
                    if kk in rv:
                        op(rv[kk])
                for o in rv.get('ops', []):
                    op(o)
            t = blk['term']
            for o in t.get('args', []):
                op(o)
    return out


def helper_candidates(F):
    """bodies that may be inlined into their callers (see module doc)"""
    vals = _fn_values(F)
    callers = defaultdict(list)  # callee id -> [(caller body, bb)]
    unresolved_use = set()
    for b in F.bodies.values():
        for bb, c in b.calls.items():
            cb = F.callee_body(c)
            if cb is not None:
                callers[cb.id].append((b, bb))
    cands = {}
    for b in F.bodies.values():
        if b.crate not in CRATES or b.is_test_code() or getattr(b, 'unit_is_test', False):
            continue
        if b.kind not in ('Fn', 'AssocFn') or b.impl_trait or b.in_trait:
            continue
        if b.d.get('vis') is None or b.d.get('vis') == 'pub':
            continue
        if _is_pinned(b) or b.id in vals or b.id in unresolved_use:
            continue
        cs = [(cb, bb) for cb, bb in callers.get(b.id, []) if not cb.is_test_code()]
        if not cs:
            continue
        cands[b.id] = b
    # drop recursion: a candidate that can reach itself through static calls
    graph = {i: {F.callee_body(c).id for c in b.calls.values() if F.callee_body(c) is not None} for i, b in F.bodies.items()}

    def reaches_self(i):
        seen, st = set(), list(graph.get(i, ()))
        while st:
            x = st.pop()
            if x == i:
                return True
            if x in seen:
                continue
            seen.add(x)
            st.extend(graph.get(x, ()))
        return False
    return {i: b for i, b in cands.items() if not reaches_self(i)}


def _subst_ty(s, m):
    if not m or not isinstance(s, str):
        return s
    return re.sub(r"(?<![\w:'])(%s)(?![\w])" % '|'.join(re.escape(k) for k in m), lambda mo: m[mo.group(1)], s)


def _shift_place(p, off):
    return {'l': p['l'] + off, 'p': p['p']}


def _shift_op(o, off):
    if 'c' in o:
        return {'c': _shift_place(o['c'], off)}
    if 'm' in o:
        return {'m': _shift_place(o['m'], off)}
    return o


def _shift_rv(rv, off, m):
    rv = dict(rv)
    for kk in ('op', 'a', 'b'):
        if kk in rv:
            rv[kk] = _shift_op(rv[kk], off)
    if 'ops' in rv:
        rv['ops'] = [_shift_op(o, off) for o in rv['ops']]
    if 'pl' in rv:
        rv['pl'] = _shift_place(rv['pl'], off)
    if 'ty' in rv:
        rv['ty'] = _subst_ty(rv['ty'], m)
    return rv


def _shift_term(t, off_l, off_b, m):
    t = copy.deepcopy(t)
    for kk in ('t', 'otherwise'):
        if kk in t and isinstance(t[kk], int) and t[kk] >= 0:
            t[kk] += off_b
    if 'uw' in t and isinstance(t['uw'], int) and t['uw'] >= 0:
        t['uw'] += off_b
    if 'arms' in t:
        t['arms'] = [[v, tg + off_b] for v, tg in t['arms']]
    if 'args' in t:
        t['args'] = [_shift_op(o, off_l) for o in t['args']]
    for kk in ('op', 'cond'):
        if kk in t:
            t[kk] = _shift_op(t[kk], off_l)
    for kk in ('dest', 'pl'):
        if kk in t:
            t[kk] = _shift_place(t[kk], off_l)
    if 'f' in t:
        if 'indirect' in t['f']:
            t['f'] = {'indirect': _shift_op(t['f']['indirect'], off_l)}
        elif 'fn' in t['f'] and m:
            fn = dict(t['f']['fn'])
            if 'gargs' in fn:
                fn['gargs'] = [_subst_ty(g, m) for g in fn['gargs']]
            for kk in ('self_ty', 'impl_self'):
                if kk in fn:
                    fn[kk] = _subst_ty(fn[kk], m)
            t['f'] = {'fn': fn}
    for kk in ('dest_ty', 'ty'):
        if kk in t:
            t[kk] = _subst_ty(t[kk], m)
    return t


def inline_dict(F, d, crate, inline_ids, flat_cache, stack=()):
    """Returns a copy of body dict `d` with every static call to a body in inline_ids replaced by that body (itself flattened)."""
    body = F.bodies[d['id']]
    sites = [(bb, F.callee_body(c)) for bb, c in sorted(body.calls.items()) if F.callee_body(c) is not None and F.callee_body(c).id in inline_ids
             and F.callee_body(c).id not in stack and F.callee_body(c).id != d['id']]
    if not sites:
        return d, []
    nd = dict(d)
    nd['locals'] = list(d['locals'])
    nd['blocks'] = [dict(b, stmts=list(b['stmts'])) for b in d['blocks']]
    inlined = []
    for bb, cb in sites:
        if cb.id not in flat_cache:
            flat_cache[cb.id] = inline_dict(F, cb.d, cb.crate, inline_ids, flat_cache, stack + (d['id'],))[0]
        c = flat_cache[cb.id]
        call = body.calls[bb]
        term = nd['blocks'][bb]['term']
        gm = {}
        gens = [g for g in c.get('generics', [])]
        ga = term['f']['fn'].get('gargs', []) if 'fn' in term['f'] else []
        if gens and len(gens) == len(ga):
            gm = {g: a for g, a in zip(gens, ga) if g != a and not g.startswith("'")}
        off_l, off_b = len(nd['locals']), len(nd['blocks'])
        nd['locals'] += [dict(l, ty=_subst_ty(l['ty'], gm)) for l in c['locals']]
        ln = term.get('fl', nd['blocks'][bb].get('tln', 0))
        # arguments -> parameter locals
        for i, a in enumerate(term['args']):
            nd['blocks'][bb]['stmts'].append({'k': 'a', 'p': {'l': off_l + i + 1, 'p': []}, 'rv': {'k': 'use', 'op': a}, 'ln': ln, 'inl': cb.id})
        tgt = term['t']
        nd['blocks'][bb]['term'] = {'k': 'goto', 't': off_b}
        nd['blocks'][bb]['inlined_call'] = cb.id
        for blk in c['blocks']:
            nb = dict(blk)
            nb['stmts'] = [dict(s, p=_shift_place(s['p'], off_l), rv=_shift_rv(s['rv'], off_l, gm)) if s['k'] == 'a' else s for s in blk['stmts']]
            t = blk['term']
            if t['k'] == 'return':
                nb['stmts'] = nb['stmts'] + [{'k': 'a', 'p': term['dest'], 'rv': {'k': 'use', 'op': {'m': {'l': off_l, 'p': []}}}, 'ln': blk.get('tln', ln), 'inl': cb.id}]
                nb['term'] = {'k': 'goto', 't': tgt} if tgt is not None and tgt >= 0 else {'k': 'unreachable'}
            elif t['k'] == 'resume' and isinstance(term.get('uw'), int) and term['uw'] >= 0:
                nb['term'] = {'k': 'goto', 't': term['uw']}
            else:
                nb['term'] = _shift_term(t, off_l, off_b, gm)
            nb['from_body'] = blk.get('from_body', cb.id)
            nd['blocks'].append(nb)
        inlined.append(cb.id)
    return nd, inlined


def flatten(F, inline_ids):
    """A new Facts in which calls to the given bodies are inlined; helpers inlined everywhere are removed."""
    if not inline_ids:
        return F, {}
    G = object.__new__(Facts)
    G.__dict__.update({k: v for k, v in F.__dict__.items() if k != 'bodies' and not k.startswith('_')})  # no per-Facts caches
    G.bodies = {}
    cache = {}
    report = {}
    for i, b in F.bodies.items():
        if i in inline_ids:
            continue
        nd, inl = inline_dict(F, b.d, b.crate, inline_ids, cache)
        if inl:
            nd, _ = thread_dict(nd)
            nb = Body(G, b.crate, nd)
            nb.unit, nb.unit_is_test = b.unit, b.unit_is_test
            nb.inlined = inl
            G.bodies[i] = nb
            report[b.path] = sorted({F.bodies[x].path for x in inl})
        else:
            nb = Body(G, b.crate, b.d)
            nb.unit, nb.unit_is_test = b.unit, b.unit_is_test
            G.bodies[i] = nb
    G._by_path = defaultdict(list)
    for b in G.bodies.values():
        G._by_path[b.path].append(b)
    G._children = defaultdict(list)
    # closures keep their lexical parent; closures of an inlined helper become children of every body the helper went into
    into = defaultdict(set)
    for i, b in G.bodies.items():
        for h in getattr(b, 'inlined', []):
            into[h].add(i)
    changed = True
    while changed:  # helpers inlined into helpers
        changed = False
        for h, tgts in list(into.items()):
            for t in list(tgts):
                if t in into:
                    new = into[t] - tgts
                    if new:
                        tgts |= new
                        changed = True
    for b in G.bodies.values():
        if b.parent:
            G._children[b.parent].append(b)
            for t in into.get(b.parent, ()):
                if t in G.bodies:
                    G._children[t].append(b)
    return G, report


# ------------------------------------------------------------------------------------------------------------
# tail duplication ("threading"): after inlining a helper that returns Result / Option / bool, the helper's exits
# (`_0 = Err(..)` on one path, `_0 = Ok(..)` on another) merge before the caller's `match` on the result. A
# path-insensitive reader then sees paths "Ok was produced, Err arm taken". When every definition of the tested local
# has a known variant / constant, the blocks between each definition and the switch are duplicated per definition and
# the switch in the copy is replaced by the jump it must take. Only regions without calls are duplicated (drops, gotos,
# assignments), so no call site is ever duplicated.
# ------------------------------------------------------------------------------------------------------------

def _known_value_of_def(d, stmt_or_term):
    """discriminant / bool value that a definition gives to a whole local, or None"""
    if stmt_or_term.get('k') == 'a':
        rv = stmt_or_term['rv']
        if rv['k'] == 'aggr' and 'vi' in rv['ak'] and rv['ak'].get('adt'):
            return ('variant', rv['ak']['vi'])
        if rv['k'] == 'use' and 'k' in rv['op'] and rv['op']['k'].get('ty') == 'bool':
            return ('bool', 1 if rv['op']['k'].get('int') == '1' else 0)
        return None
    if stmt_or_term.get('k') == 'call' and 'fn' in stmt_or_term['f']:
        fn = stmt_or_term['f']['fn']
        if fn.get('name') == 'from_residual' and 'FromResidual' in (fn.get('trait') or fn.get('path') or ''):
            ty = stmt_or_term.get('dest_ty', '')
            if ty.startswith('std::result::Result') or ty.startswith('core::result::Result'):
                return ('variant', 1)
            if ty.startswith('std::option::Option') or ty.startswith('core::option::Option'):
                return ('variant', 0)
    return None


def thread_dict(d, max_region=16):
    blocks = d['blocks']
    n0 = len(blocks)
    # whole-local definitions
    defs = defaultdict(list)  # local -> [(bb, 'stmt', si) | (bb, 'term', None)]
    for bb, blk in enumerate(blocks):
        if blk['cleanup']:
            continue
        for si, s in enumerate(blk['stmts']):
            if s['k'] == 'a' and not s['p']['p']:
                defs[s['p']['l']].append((bb, 'stmt', si))
        t = blk['term']
        if t['k'] == 'call' and not t['dest']['p']:
            defs[t['dest']['l']].append((bb, 'term', None))

    def succs(blk):
        t = blk['term']
        k = t['k']
        if k == 'goto':
            return [t['t']]
        if k == 'switch':
            return [tg for _, tg in t['arms']] + [t['otherwise']]
        if k in ('drop', 'assert'):
            return [t['t']]
        if k == 'call':
            return [t['t']] if isinstance(t.get('t'), int) and t['t'] >= 0 else []
        return []

    def copy_chain(x):
        """x = use(move y) with y a whole local defined once: the tested value is y's"""
        ds = defs.get(x, [])
        return ds

    changed = False
    nd = None
    for T in range(n0):
        blk = blocks[T]
        if blk['cleanup'] or blk['term']['k'] != 'switch':
            continue
        op = blk['term']['op']
        key = 'm' if 'm' in op else ('c' if 'c' in op else None)
        if key is None or op[key]['p']:
            continue
        dl = op[key]['l']
        # the switch operand: a bool local, or `dl = discr(x)` computed in T itself
        x, kind = None, None
        dd = [(bb, k, si) for bb, k, si in defs.get(dl, [])]
        if len(dd) == 1 and dd[0][0] == T and dd[0][1] == 'stmt':
            rv = blk['stmts'][dd[0][2]]['rv']
            if rv['k'] == 'discr' and not rv['pl']['p']:
                x, kind = rv['pl']['l'], 'variant'
                if any(s['k'] != 'a' or s['p']['l'] != dl for s in blk['stmts']):
                    x = None  # T computes more than the discriminant
        elif len(dd) >= 2 and not blk['stmts'] and d['locals'][dl]['ty'] == 'bool':
            x, kind = dl, 'bool'
        if x is None:
            continue
        # follow a copy made on the way (`x = move y` right before): handled by treating y's defs when x has one copy-def
        xdefs = defs.get(x, [])
        if len(xdefs) == 1 and xdefs[0][1] == 'stmt':
            s = blocks[xdefs[0][0]]['stmts'][xdefs[0][2]]
            if s['rv']['k'] == 'use' and ('m' in s['rv']['op'] or 'c' in s['rv']['op']):
                o = s['rv']['op'].get('m') or s['rv']['op'].get('c')
                if not o['p'] and len(defs.get(o['l'], [])) >= 2:
                    # values come from y; the copy block lies inside the region
                    xdefs = defs[o['l']]
        if len(xdefs) < 2:
            continue
        vals = []
        for bb, k, si in xdefs:
            v = _known_value_of_def(d, blocks[bb]['stmts'][si] if k == 'stmt' else blocks[bb]['term'])
            vals.append(v)
        if any(v is None or v[0] != kind for v in vals) or len({v[1] for v in vals}) < 2:
            continue
        defblocks = {bb for bb, _, _ in xdefs}
        if T in defblocks:
            continue
        plans = []
        ok = True
        for (bb, k, si), v in zip(xdefs, vals):
            # a later definition of x in the same block wins; only the last one per block counts
            if any(b2 == bb and ((k2 == 'term') or (k == 'stmt' and k2 == 'stmt' and s2 > si)) and (b2, k2, s2) != (bb, k, si) for b2, k2, s2 in xdefs):
                continue
            region, work = [], list(succs(blocks[bb]))
            seen = set()
            reaches_T = False
            while work:
                y = work.pop()
                if y == T:
                    reaches_T = True
                    continue
                if y in seen:
                    continue
                seen.add(y)
                if y in defblocks or blocks[y]['cleanup'] or blocks[y]['term']['k'] in ('call', 'return', 'unreachable', 'resume') or len(seen) > max_region:
                    ok = False
                    break
                region.append(y)
                work.extend(succs(blocks[y]))
            if not ok:
                break
            if not reaches_T:
                continue
            arm = None
            for val_, tg in blk['term']['arms']:
                if int(val_) == v[1]:
                    arm = tg
            if arm is None:
                arm = blk['term']['otherwise']
            plans.append((bb, region, arm))
        if not ok or not plans:
            continue
        if nd is None:
            nd = dict(d)
            nd['blocks'] = [dict(b) for b in blocks]
            blocks = nd['blocks']
        for bb, region, arm in plans:
            base = len(blocks)
            m = {y: base + i for i, y in enumerate(region)}
            m[T] = base + len(region)

            def retarget(t):
                t = copy.deepcopy(t)
                for kk in ('t', 'otherwise'):
                    if kk in t and isinstance(t[kk], int) and t[kk] in m:
                        t[kk] = m[t[kk]]
                if 'arms' in t:
                    t['arms'] = [[v_, m.get(tg, tg)] for v_, tg in t['arms']]
                return t
            for y in region:
                nb = dict(blocks[y])
                nb['term'] = retarget(blocks[y]['term'])
                nb['dup_of'] = y
                blocks.append(nb)
            tb = dict(blocks[T])
            tb['term'] = {'k': 'goto', 't': arm}
            tb['dup_of'] = T
            blocks.append(tb)
            blocks[bb] = dict(blocks[bb], term=retarget(blocks[bb]['term']))
        changed = True
    return (nd if changed else d), changed
