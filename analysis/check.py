"""Entry point behind /verif/check: decide one property for the current working tree of /repo.

exit 0  property held on everything analysed (known findings are printed as KNOWN-FINDING lines)
exit 1  after printing `VIOLATION property=<id> replay=<report>` for a violation not listed as known
exit 3  the tree could not be analysed at all (does not compile under cargo +nightly check)
"""
import argparse
import json
import os
import sys
import time

HERE = os.path.dirname(os.path.abspath(__file__))
VERIF = os.path.dirname(HERE)
sys.path.insert(0, HERE)
import extract  # noqa: E402
import engine  # noqa: E402
from props import PROPS  # noqa: E402


def load_known():
    """known_findings.txt -> {(prop, key): text} for open findings only."""
    out = {}
    p = os.path.join(VERIF, 'known_findings.txt')
    if not os.path.exists(p):
        return out
    import re
    for line in open(p):
        m = re.match(r'finding:\s+property=(\S+)\s+key=(?:"([^"]*)"|(\S+))\s*(.*)', line.strip())
        if m:
            out[(m.group(1), m.group(2) if m.group(2) is not None else m.group(3))] = m.group(4)
    return out


def vkey(o):
    return '%s|%s' % (o['rule'], o['key'])


def engine_selfcheck(R, prop):
    """Positive/negative examples for the primitives and generic detectors (fixtures/engine_fixture)."""
    import selfcheck
    try:
        problems, n = selfcheck.run()
    except SystemExit as e:
        problems, n = ['the fixture crate could not be analysed: %s' % e], 0
    R.ob('SELFCHECK', 'engine-fixture', not problems, 'the analysis primitives and generic detectors report exactly the planted examples (%d fixture bodies)' % n if not problems
         else 'CHECKER-BLIND: ' + '; '.join(problems), 'fixtures/engine_fixture/src/lib.rs', props=(prop,), status=None if not problems else 'CHECKER-BLIND')
    return {'fixture_bodies': n, 'problems': problems}


def run_quick(prop, repo, seed):
    t0 = time.time()
    fd = extract.facts_dir(repo, 'all')
    F, roles, R, vinfo = engine.run_best(fd)
    sc = engine_selfcheck(R, prop)
    return evaluate(prop, F, roles, R, 'quick', seed, t0, extra_cov={'configurations': ['workspace --all-features (lib targets)'], 'engine_selfcheck': sc, 'views': view_cov(vinfo, prop)})


def view_cov(vinfo, prop):
    return {'analysed': vinfo['views'], 'reported': vinfo['chosen'].get(prop, 'raw'),
            'helpers_inlined_in_normalised_view': vinfo.get('inlined_helpers', {}),
            'rule': 'raw = the functions as written; helpers-inlined = the same program with non-pub helper functions that the pinned tree does not have inlined into their callers (only built when the raw view has a failing obligation); '
                    'the view with the fewest failing obligations is reported, the raw view on a tie', **({'flatten_error': vinfo['flatten_error']} if 'flatten_error' in vinfo else {})}


def evaluate(prop, F, roles, R, tier, seed, t0, extra_cov=None, extra_violations=None):
    meta = PROPS[prop]
    obs = R.for_prop(prop)
    # fail closed: every rule id that was confirmed by hand for this property must have produced an instance
    have = {o['rule'] for o in obs}
    missing_rules = [r for r in meta['expect_rules'] if r not in have]
    for r in missing_rules:
        R.ob(r, 'floor:rule-present', False, 'rule %s produced no instance for %s (anchor lost?)' % (r, prop), props=(prop,), status='FLOOR')
    obs = R.for_prop(prop)
    known = load_known()
    violations, known_hits = [], []
    for o in obs:
        if o['ok']:
            continue
        k = (prop, vkey(o))
        if k in known:
            known_hits.append((o, known[k]))
        else:
            violations.append(o)
    for v in (extra_violations or []):
        violations.append(v)
    st = F.stats()
    rules = R.rules_for_prop(prop)
    samples = []
    for o in obs[:400]:
        if len(samples) >= 12:
            break
        if o['key'].startswith('floor:'):
            continue
        samples.append({'rule': o['rule'], 'instance': o['key'], 'at': o['where'], 'verdict': 'holds' if o['ok'] else o['status'], 'obligation': o['msg'].split('\n')[0][:300]})
    nontrivial = len({(o['rule'], o['key']) for o in obs if not o['key'].startswith('floor:') and not o['key'].startswith('anchor:')})
    cov = {
        'explanation': meta['explanation'],
        'obligations': len(obs),
        'discharged': sum(1 for o in obs if o['ok']),
        'evaluations': len(obs),
        'distinct_nontrivial': nontrivial,
        'rule': 'one obligation per (rule, function/instance) found in the MIR of the current tree; non-trivial = not a floor/anchor record',
        'samples': samples,
        'exhaustive': True,
        'rules': rules,
        'analysed': {'bodies': st['bodies'], 'basic_blocks': st['blocks'], 'call_sites': st['call_sites'],
                     'units': [{'crate': u['crate'], 'features': u['features'], 'test': u['is_test'], 'bodies': u['bodies']} for u in st['units']]},
        'roles_resolved': {k: (v if isinstance(v, (str, list, dict, type(None))) else str(v)) for k, v in (roles.table.items() if roles else [])},
        'decided': meta['decided'],
        'not_decided': meta['not_decided'],
        'checker_cmd': './check %s%s' % (prop, '' if tier == 'quick' else ' --tier thorough'),
        'trusted_base': ['rustc nightly front end + MIR construction', 'pie-facts extractor (/verif/driver)', 'analysis core and rule tables (/verif/analysis)',
                         'semantics of std / hashlink / slotmap APIs used as anchors'],
    }
    if extra_cov:
        cov.update(extra_cov)
    ev = {
        'property_id': prop, 'tier': tier, 'seed': seed, 'level': 'other', 'coverage': cov,
        'assumptions': meta['assumptions'], 'wall_s': round(time.time() - t0, 2), 'violations': len(violations),
        'known_findings_matched': [vkey(o) for o, _ in known_hits],
    }
    os.makedirs(os.path.join(VERIF, 'evidence'), exist_ok=True)
    with open(os.path.join(VERIF, 'evidence', prop + '.json'), 'w') as fh:
        json.dump(ev, fh, indent=1, default=str)
    report_path = os.path.join(VERIF, 'evidence', prop + '.report.json')
    with open(report_path, 'w') as fh:
        json.dump({'property_id': prop, 'tier': tier,
                   'violations': [{'key': vkey(o), 'rule': o['rule'], 'instance': o['key'], 'status': o['status'], 'at': o['where'], 'message': o['msg']} for o in violations],
                   'known_findings': [{'key': vkey(o), 'text': t} for o, t in known_hits]}, fh, indent=1, default=str)
    for o, t in known_hits:
        print('KNOWN-FINDING: property=%s %s %s' % (prop, vkey(o), t))
    print('%s %s: %d obligation(s), %d discharged, %d violation(s), %d known finding(s) [%d bodies, %d call sites, %.1fs]' % (
        prop, tier, len(obs), cov['discharged'], len(violations), len(known_hits), st['bodies'], st['call_sites'], time.time() - t0))
    if violations:
        for o in violations[:20]:
            print('  [%s] %s %s\n      %s\n      at %s' % (o['status'], o['rule'], o['key'], o['msg'].replace('\n', '\n      '), o['where']))
        print('VIOLATION property=%s replay=%s' % (prop, report_path))
        return 1
    return 0


def main():
    ap = argparse.ArgumentParser()
    ap.add_argument('prop')
    ap.add_argument('--tier', default=os.environ.get('VERIF_TIER', 'quick'))
    ap.add_argument('--repo', default=os.environ.get('PIE_REPO', '/repo'))
    ap.add_argument('--explain')
    a = ap.parse_args()
    seed = int(os.environ.get('VERIF_SEED', '0') or 0)
    if a.prop not in PROPS:
        print('unknown or unclaimed property %s' % a.prop)
        return 2
    if a.explain:
        rep = json.load(open(a.explain))
        for v in rep.get('violations', []):
            print('%s\n  at %s\n  %s\n' % (v['key'], v['at'], v['message']))
        return 0
    try:
        if a.tier == 'thorough':
            import thorough
            return thorough.run(a.prop, a.repo, seed)
        return run_quick(a.prop, a.repo, seed)
    except SystemExit as e:
        print(str(e))
        return 3


if __name__ == '__main__':
    sys.exit(main())
