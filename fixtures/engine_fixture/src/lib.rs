//! Positive / negative examples for the analysis primitives and the generic detectors.
//! Analysed by the same driver and rules on every run: if an expected report is missing the
//! checker is blind (toolchain drift, extractor bug) and every check fails closed.
#![allow(dead_code, clippy::all)]
use std::collections::HashSet;

#[inline(never)] pub fn open() {}
#[inline(never)] pub fn work() {}
#[inline(never)] pub fn close() {}

/// `open` is NOT on every path before `work`.
pub fn must_before_violated(flag: bool) { if flag { open(); } work(); close(); }
/// `open` is on every path before `work`; `close` on every path after it.
pub fn must_before_holds(flag: bool) { open(); if flag { work(); } else { work(); } close(); }
/// `close` is skipped on the early return.
pub fn must_after_violated(flag: bool) -> u32 { open(); work(); if flag { return 1; } close(); 0 }
/// a panic path does not count as a normal exit
pub fn must_after_holds_with_panic(flag: bool) -> u32 { open(); work(); if flag { panic!("abort"); } close(); 0 }

/// N1 positive: hash-set order flows into a Vec.
pub fn leak_order(s: &HashSet<u32>) -> Vec<u32> { s.iter().copied().collect() }
/// N1 sanitised: sorted before any other use.
pub fn leak_sorted(s: HashSet<u32>) -> Vec<u32> { let mut v: Vec<u32> = s.into_iter().collect(); v.sort_unstable(); v }
/// N2 positives.
pub fn clock() -> std::time::SystemTime { std::time::SystemTime::now() }
pub fn ptr_int(x: &u32) -> usize { x as *const u32 as usize }

/// guards: the Some edge leads to the use, the None edge diverges.
pub fn guard(o: Option<u32>) -> u32 { match o { Some(v) => v + 1, None => panic!("none") } }
/// correlated option: with `c = Some`, the final `else` branch is infeasible.
pub fn correlated(c: Option<u32>) -> u32 {
  let x = if let Some(v) = c { open(); Some(v) } else { None };
  work();
  if let Some(y) = x { close(); y } else { 0 }
}
/// provenance: the value returned is the result of `make()`, through a clone and a box.
#[inline(never)] pub fn make() -> String { String::new() }
pub fn provenance() -> Box<String> { let a = make(); let b = a.clone(); Box::new(b) }
/// helper summaries: `wrapped_open` must-calls `open`.
pub fn wrapped_open() { open(); }
pub fn uses_wrapper() { wrapped_open(); work(); }
/// digest-like loop without framing (F5 shape) vs with framing
pub trait Sink { fn update(&mut self, data: &[u8]); }
pub fn unframed<S: Sink>(s: &mut S, items: &[String]) { for i in items { s.update(i.as_bytes()); } }
